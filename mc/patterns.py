"""Type-directed enumeration of sparsity patterns (PatternedTensor descriptors).

Index types:  ('a', n) atom of size n | ('p', (t1, t2, ...)) product | ('s', (t1, t2, ...)) sum.
A pattern of a tuple of types is a descriptor (psizes, vterms):
    psizes = sizes of the physical axes, numbered in order of first appearance
    vterm  = i (physical axis i) | ('u',) | ('p', (vterm, ...)) | ('s', before, vterm, after)
Descriptors are plain literals (picklable, repr-able); `instantiate` builds the real object.
Two patterns of the same type tuple denote tensors of the same index types ("well-typed" operands).
"""
import itertools, math

A = lambda n: ('a', n)
TYPES = [A(1), A(2), A(3), ('p', (A(2), A(3))), ('p', (A(2), A(2))), ('s', (A(1), A(2))), ('s', (A(2), A(1))),
         ('s', (A(2), A(3))), ('s', (A(1), A(2), A(1))), ('p', (A(2), ('s', (A(1), A(2))))),
         ('s', (A(1), ('p', (A(2), A(2)))))]
TYPES_SMALL = [A(1), A(2), A(3), ('p', (A(2), A(2))), ('s', (A(1), A(2))), ('s', (A(2), A(1))), ('p', (A(2), ('s', (A(1), A(2)))))]


def numel(t):
    if t[0] == 'a':
        return t[1]
    if t[0] == 'p':
        r = 1
        for x in t[1]:
            r *= numel(x)
        return r
    return sum(numel(x) for x in t[1])


def axis_descs(t):
    """Abstract patterns of one axis of type t: placeholders ('new', n, type) / ('share', n, type)."""
    n = numel(t)
    if n == 1 and t[0] != 's':
        yield ('u',)
    elif n != 1:
        yield ('new', n, t)
        yield ('share', n, t)
    if t[0] == 'p' and len(t[1]) >= 2:
        for parts in itertools.product(*[list(axis_descs(x)) for x in t[1]]):
            yield ('prod', parts)
    if t[0] == 's':
        for i, x in enumerate(t[1]):
            b = sum(numel(y) for y in t[1][:i])
            a = sum(numel(y) for y in t[1][i + 1:])
            for p in axis_descs(x):
                yield ('sum', b, p, a)


def _inst(d, psizes, bytype):
    """Resolve placeholders: yields (vterm, psizes', bytype')."""
    if d == ('u',):
        yield ('u',), psizes, bytype
    elif d[0] == 'new':
        k = len(psizes)
        bt = {kk: list(v) for kk, v in bytype.items()}
        bt.setdefault(repr(d[2]), []).append(k)
        yield k, psizes + (d[1],), bt
    elif d[0] == 'share':
        for k in bytype.get(repr(d[2]), []):
            yield k, psizes, bytype
    elif d[0] == 'sum':
        for ax, p2, b2 in _inst(d[2], psizes, bytype):
            yield ('s', d[1], ax, d[3]), p2, b2
    elif d[0] == 'prod':
        def recp(j, acc, p, b):
            if j == len(d[1]):
                yield ('p', tuple(acc)), p, b
                return
            for ax, p2, b2 in _inst(d[1][j], p, b):
                yield from recp(j + 1, acc + [ax], p2, b2)
        yield from recp(0, [], psizes, bytype)


def tensors_of(typetuple, maxpax=2, maxweight=None):
    """All patterns (psizes, vterms) of a tuple of index types with <= maxpax physical axes."""
    out = []
    for descs in itertools.product(*[list(axis_descs(t)) for t in typetuple]):
        def rec(i, vterms, psizes, bytype):
            if len(psizes) > maxpax:
                return
            if i == len(descs):
                out.append((psizes, tuple(vterms)))
                return
            for ax, p2, b2 in _inst(descs[i], psizes, bytype):
                rec(i + 1, vterms + [ax], p2, b2)
        rec(0, [], (), {})
    if maxweight is not None:
        out = [p for p in out if weight(p) <= maxweight]
    return out


def term_weight(v):
    if isinstance(v, int):
        return 1
    if v == ('u',):
        return 0
    if v[0] == 'p':
        return 1 + sum(term_weight(x) for x in v[1])
    return 1 + term_weight(v[2])


def weight(p):
    return sum(term_weight(v) for v in p[1])


_cat_cache = {}


def catalogue(nd_max=2, maxpax=2, numel_cap=18, types=None):
    """dict: type tuple -> list of patterns; simplest type tuples first."""
    types = types or TYPES
    key = (nd_max, maxpax, numel_cap, tuple(types))
    if key not in _cat_cache:
        cat = {}
        for nd in range(1, nd_max + 1):
            for tt in itertools.product(types, repeat=nd):
                n = 1
                for t in tt:
                    n *= numel(t)
                if nd >= 2 and n > numel_cap:
                    continue
                l = tensors_of(tt, maxpax)
                if l:
                    cat[tt] = l
        _cat_cache[key] = cat
    return _cat_cache[key]


def vshape(p):
    psizes, vterms = p

    def n(v):
        if isinstance(v, int):
            return psizes[v]
        if v == ('u',):
            return 1
        if v[0] == 'p':
            r = 1
            for x in v[1]:
                r *= n(x)
            return r
        return v[1] + n(v[2]) + v[3]
    return tuple(n(v) for v in vterms)


def build_axes(p):
    from fggs.indices import PhysicalAxis, SumAxis, productAxis, unitAxis
    psizes, vterms = p
    pax = [PhysicalAxis(n) for n in psizes]

    def mk(v):
        if isinstance(v, int):
            return pax[v]
        if v == ('u',):
            return unitAxis
        if v[0] == 'p':
            return productAxis([mk(x) for x in v[1]])
        return SumAxis(v[1], mk(v[2]), v[3])
    return tuple(pax), tuple(mk(v) for v in vterms)


def physical_data(psizes, dtype, data='arange', storage='contig', offset=0):
    """Distinct values 1..n (offset shifts them) laid out contiguously, as a permuted view, or as a stride-0
    expanded view along the last axis (then values are constant along it)."""
    import torch
    n = 1
    for s in psizes:
        n *= s
    if dtype == torch.bool:
        base = (torch.arange(n) % 3 == 0)
    else:
        base = torch.arange(1 + offset, n + 1 + offset, dtype=dtype)
    if storage == 'contig' or len(psizes) == 0:
        return base.reshape(psizes)
    if storage == 'permuted':
        return base.reshape(tuple(reversed(psizes))).permute(*reversed(range(len(psizes))))
    if storage == 'expanded':
        lead = psizes[:-1]
        m = 1
        for s in lead:
            m *= s
        return base[:m].reshape(lead).unsqueeze(-1).expand(psizes)
    raise KeyError(storage)


def instantiate(p, default=0., dtype=None, storage='contig', offset=0):
    import torch
    from fggs.indices import PatternedTensor
    dtype = dtype or torch.float64
    paxes, vaxes = build_axes(p)
    phys = physical_data(p[0], dtype, storage=storage, offset=offset)
    return PatternedTensor(phys, paxes, vaxes, default)


def dense_of(p, default=0., dtype=None, storage='contig', offset=0):
    """Harness-side interpretation of a descriptor (independent of PatternedTensor.to_dense):
    fills a dense tensor by the affine index map of the axis grammar."""
    import torch
    dtype = dtype or torch.float64
    psizes, vterms = p
    phys = physical_data(psizes, dtype, storage=storage, offset=offset)
    shape = vshape(p)
    out = torch.full(shape, default, dtype=dtype) if dtype != torch.bool else torch.full(shape, bool(default), dtype=torch.bool)

    def pos(v, idx):
        if isinstance(v, int):
            return idx[v]
        if v == ('u',):
            return 0
        if v[0] == 'p':
            r = 0
            for x in v[1]:
                r = r * _n(x, psizes) + pos(x, idx)
            return r
        return v[1] + pos(v[2], idx)
    for idx in itertools.product(*[range(s) for s in psizes]):
        out[tuple(pos(v, idx) for v in vterms)] = phys[idx]
    return out


def _n(v, psizes):
    if isinstance(v, int):
        return psizes[v]
    if v == ('u',):
        return 1
    if v[0] == 'p':
        r = 1
        for x in v[1]:
            r *= _n(x, psizes)
        return r
    return v[1] + _n(v[2], psizes) + v[3]


def show(p):
    names = 'XYZWVU'

    def s(v):
        if isinstance(v, int):
            return '%s(%d)' % (names[v], p[0][v])
        if v == ('u',):
            return '()'
        if v[0] == 'p':
            return '(' + '*'.join(s(x) for x in v[1]) + ')'
        return '(%d+%s+%d)' % (v[1], s(v[2]), v[3])
    return '[' + ', '.join(s(v) for v in p[1]) + ']'


def patterns_for_shape(shape, maxpax=3):
    """Patterns of every type tuple whose sizes equal `shape` (used for factor weights)."""
    per_dim = [[t for t in TYPES if numel(t) == n] for n in shape]
    out = []
    for tt in itertools.product(*per_dim):
        out.extend(tensors_of(tt, maxpax))
    return out
