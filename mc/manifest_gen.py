"""Regenerates MANIFEST.json from the table below (run: /venv/bin/python -m mc.manifest_gen)."""
import json, os, glob
VERIF = os.path.dirname(os.path.dirname(os.path.abspath(__file__)))

CHECKS = {
    'C19': dict(category='exploration', technique='exhaustive enumeration of all digraphs on <=4 (thorough 5) vertices and of a bounded grammar family, against a transitive-closure oracle',
                text='Every labelled digraph with self-loops up to the vertex bound, in two successor orders, is run through the real scc() and compared with the closure-based partition and the dependency order; every grammar skeleton of a bounded family is run through nonterminal_graph and sum_products (Bool) against the IR. A pass means no digraph/grammar below the bound violates the property.',
                note='Trusted: the plain-Python transitive closure oracle; bounds: n<=4 quick / n<=5 thorough, 3 nonterminals, <=2 rules each.', design='3/C19'),
    'C10': dict(category='exploration', technique='exhaustive enumeration of all labelled simple graphs on <=5 (thorough: <=7) vertices x 3 methods, validity checker + exact treewidth DP oracle',
                text='Every labelled simple graph up to the vertex bound, built in two vertex orders, is decomposed by the real min_fill/quickbb/acb code; the harness checks tree-ness, vertex/edge cover and running intersection, compares widths with an exact subset-DP treewidth, re-eliminates the returned orders and checks that the bound helpers bracket the treewidth.',
                note='Trusted: plain-Python validity checker and treewidth DP. Bounds: n<=5 quick (1+1+2+8+64+1024 graphs x 2 orders), all graphs on 6 and 7 vertices thorough.', design='3/C10'),
    'C20': dict(category='exploration', technique='exhaustive enumeration of domains, factor shapes/representations and all binding call sequences up to depth 3 against a dictionary model',
                text='All small FiniteDomain/RangeDomain instances, every (domain sizes, weight shape, representation) combination up to rank 3 and every sequence of <=3 binding calls over a 71-call alphabet on FGG and FactorGraph are executed on the real classes and compared with list/dict semantics written in plain Python.',
                note='Trusted: the dictionary model of bindings. Rejection is any of ValueError/KeyError/TypeError. Bounds as in evidence.coverage.bounds.', design='3/C20'),
    'C16': dict(category='model_checking', technique='explicit-state BFS over API call histories of the real classes (canonical-snapshot dedup), reference dictionary model + invariants + atomicity + copy independence on every transition, == on all state pairs',
                text='Breadth-first search over all call histories up to depth 3 (FactorGraph 2; thorough 4/3) for Graph, FactorGraph, HRG and FGG over alphabets of 22-58 concrete calls including calls that must fail; every transition executes the real method and is compared with a plain-Python reference model (acceptance and resulting nodes/edges/ext/rules/start/domains/factors), the well-formedness invariants, atomicity of failing calls, copy equality and copy independence; == is evaluated on all pairs of visited states (reflexive, symmetric, partition, distinguishes structural differences).',
                note='The model is the specification of acceptance; where acceptance depends on whether a no-longer-used label is still remembered the model allows either. Every explored trace is an implementation trace. Bounds in evidence.coverage.per_object.', design='3/C16'),
    'C15': dict(category='model_checking', technique='explicit-state search over all rewrite orders of every derivation tree (<=6 rule instances, thorough 7) on the real replace_edge/derive, per-transition oracle + confluence by canonical forms',
                text='For every derivation tree up to the size bound over a universal HRG of 17 rule templates, the set of reachable (set of rewritten instances) states is explored exhaustively; each transition is one real replace_edge call on a deep copy of the host and is judged (edge removed, externals identified in order, fresh copies, labels/attachment order kept, rest untouched, type errors rejected atomically); revisits compare canonical graphs (confluence); the unique terminal state must be isomorphic to FGGDerivation.derive(), whose assignment must be total and whose weight must equal the product over rule instances.',
                note='Trusted: mc.canon canonical form; objects are kept alive so address-derived ids are not recycled. Isomorphic hosts are assumed to have isomorphic futures (used for state dedup).', design='3/C15'),
    'C17': dict(category='exploration', technique='exhaustive enumeration of all ordered grammar pairs of a bounded family x naming schemes x edge orders; derivation multisets to depth 3 (thorough 4) compared with harness-side pairing',
                text='Every ordered pair of HRGs of a 105-grammar family (shared node and nonterminal-edge ids), five naming schemes including the X+"Y,Z" / "X,Y"+Z clash, a terminal named like a pair and shared terminal names, and both edge insertion orders, is conjoined by the real conjoin_hrgs; the multiset of derivations of the result must equal the multiset of conjoinable derivation pairs computed independently; names fresh; ValueError exactly on a genuine terminal conflict.',
                note='Derivations are compared up to a depth bound; terminal edges have implicit ids (two grammars sharing a terminal edge id are out of scope).', design='3/C17'),
    'C05': dict(category='exploration', technique='exhaustive enumeration of rule shapes (<=4 nodes, <=4 edges) x nonterminal masks x 3 methods x 4 entry points; harness-side inlining + canonical forms; tree_decomposition spy',
                text='Every right-hand-side shape below the bound, in two node numberings, with terminal / partly / fully nonterminal edges whose names collide with the fresh-name scheme, is factorized by the real code through factorize_rule (with and without labels), factorize_hrg (also on HRG.copy()) and factorize_fgg with each method; fresh nonterminals are inlined by the harness and the result compared with the original rule up to isomorphism, per left-hand side and in order; widths, name freshness, labels argument, kept interpretation, equal sum-product and the forwarded method are checked.',
                note='Trusted: mc.canon. Shapes are enumerated up to isomorphism (two numberings each); bounds in evidence.', design='3/C05'),
    'C14': dict(category='exploration', technique='exhaustive enumeration of grammars x id masks x domain classes x weight representations, of all json_to_weights specifications up to term weight 3, and of all out-of-range node numbers',
                text='Every single-rule FGG over Shapes(3,2,2) with every explicit/implicit id mask, three domain classes and every weight representation (lists, tensors, all patterned tensors of the weight shape incl. diagonal/permuted/stride-0/one-hot with inf and 0), plus multi-rule grammars, is serialised by the real fgg_to_json, passed through json.dumps/loads and reloaded; the result is compared rule by rule up to isomorphism (explicit ids kept), with domains, dense weights, sum-product and verbatim second round trip; every weight specification is compared with a harness interpreter of the axis grammar; every out-of-range node number must raise ValueError.',
                note='Trusted: mc.canon and the axis-grammar interpreter (offset/stride semantics of the module docstring).', design='3/C14'),
    'C01': dict(category='exploration', technique='exhaustive enumeration of non-recursive grammars (all rule shapes up to a bound x label sharing x domain sizes x weight deviations x semiring/dtype/method) against an exact rational evaluation of the definition',
                text='Every single-rule grammar over all right-hand-side shapes up to isomorphism (<=3 nodes/<=3 edges, hub shapes with up to 5 edges, two node labels), every sharing pattern of terminal factors, domain sizes 1-3, generic prime weights under the full semiring x dtype x method cross product and every single-entry deviation to 0/inf/1, plus every grammar of a bounded multi-nonterminal family, is evaluated by the real sum_product / sum_products / singleton_fgg and compared entrywise with the definition evaluated in exact rationals (0*inf=0).',
                note='Trusted: the plain-Python rational evaluator (mc.oracles.eval_nonrec). Float results compared with the tolerance policy of DESIGN 1.2. Bounds in evidence.', design='3/C01'),
    'C04': dict(category='exploration', technique='exhaustive enumeration of rule shapes / grammar families / recursive templates x weightings x all start assignments against an exact max-times Kleene oracle; harness-side structural validation of the derivation',
                text='For every grammar of the bounded families (all single-rule shapes up to 3 nodes / 3 edges in two node orders, a multi-nonterminal family, eight recursive templates with all weightings over {0,1/4,1/2,1,2}) and every start assignment with a finite, attained optimum, the real viterbi() result is validated structurally by harness code and its weight (from the rule instances and from derive()) compared with the exact optimum and with the Viterbi-semiring sum_product.',
                note='Trusted: exact max-times Kleene iteration (mc.oracles). One known finding (K01: tie through a weight-one cycle makes reconstruct recurse forever) is matched by signature and reported as KNOWN-FINDING.', design='3/C04'),
    'C02': dict(category='exploration', technique='exhaustive enumeration of recursive templates x all weightings over a 5-value alphabet x semiring x method x tolerances/budgets against Kleene-iteration oracles (exact for Bool/Viterbi, 50-digit for Real/Log)',
                text='Nine recursive templates (incl. a nonterminal whose sparsity pattern grows during iteration) with every weighting of up to 3 (thorough 4) entries over {0,1/4,1/2,1,2}, domain sizes 1-2, are solved by the real sum_product under every semiring, method and three tolerances, plus starved iteration budgets; the result is compared with the least fixed point computed by Kleene iteration on the IR within an explicit a-priori error bound, method=linear must raise ValueError exactly on non-linear grammars, and an unconverged result without a warning is a violation.',
                note='Grammars whose Real/Log least fixed point the 50-digit Kleene iteration cannot classify (critical, rho ~ 1) are excluded and counted, except the closed-form critical case x = a x^2 + b. Known finding K02 (Viterbi newton, tight cycle + rounding).', design='3/C02'),
    'C03': dict(category='exploration', technique='exhaustive enumeration of grammars (rule shapes x factor sharing x zero deviations, a multi-nonterminal family, ten recursive templates x weightings) x {Real,Log} x methods x all one-hot cotangents against exact forward-mode derivatives of the definition',
                text='For every grammar of the bounded families, every weight requiring grad and every one-hot / all-ones cotangent on the start tensor, the gradient produced by back-propagating through the real sum_product is compared entry by entry with the exact derivative of the definition (rational forward-mode on the IR; 40-digit Kleene iteration with dual numbers for recursive grammars; w dZ/dw / Z in the Log semiring), including shared factors, unreachable factors, dead rules, duplicated external nodes and a diagonal-patterned factor.',
                note='Default Jacobian path only (j_precompute is compared relationally in C11). Known finding K03 (fixed-point stops at an all-zero iterate). Bounds and excluded counts in evidence.', design='3/C03'),
    'C06': dict(category='model_checking', technique='exhaustive enumeration of a type-directed pattern catalogue x defaults x storage layouts through every operation and every same-typed operand pair, plus explicit-state BFS of the <patterned, dense> product machine over operation compositions; representation invariant asserted on every construction',
                text='Every patterned tensor of the catalogue (100 index-type tuples, 606 patterns incl. shared axes and sum/product nestings) under six defaults and three storage layouts is pushed through every unary, scalar, structural, indexing, reshape/view and iteration operation, every ordered same-typed pair through every binary/ternary operation, and compositions of operations are explored as a product machine whose second component is the dense tensor; each result must denote exactly the tensor torch computes on to_dense() (NaN-aware, bit-exact; 8 ulp for div), sources must stay untouched, reshape must succeed on merges, and every PatternedTensor constructed inside the library must satisfy the representation invariant.',
                note='torch is the trusted base for dense semantics. The IEEE-special default slice (operations whose default is computed with Python math) is excluded per operation and counted in evidence.excluded_not_judged.', design='3/C06'),
    'C13': dict(category='exploration', technique='exhaustive enumeration of all ordered same-typed pattern pairs x default pairs x physical contents (all {0,1,1.5}-assignments for small tensors, copy-with-single-perturbation otherwise) x tolerances against torch.equal/allclose on the dense tensors; all key-presence patterns for MultiTensor.allclose',
                text='For every ordered pair of same-typed patterns of the 606-pattern catalogue, seven default pairs and the enumerated contents, PatternedTensor.equal / allclose (three tolerance settings, both argument orders), equal_default / allclose_default and the representation-insensitivity clauses (clone, densification, re-patterned copy) are compared with torch on to_dense(); MultiTensor.allclose is run on all 64x64 presence/value combinations of two 3-key MultiTensors at tol 0 and 0.1 in the Real and Log semirings against "absent = semiring zero".',
                note='torch.equal / torch.allclose are the specification. Bounds in evidence.', design='3/C13'),
    'C07': dict(category='exploration', technique='exhaustive enumeration of einsum signatures (up to renaming) x operand sparsity patterns and storage layouts x value deviations x 4 semirings x grad on/off against brute-force loops; pointer validation for the Viterbi variant',
                text='Every einsum signature below the bound (incl. indices repeated inside an operand, every ordered output subset, size-1 and size-0 indices, product-split axes) is run through the real einsum for every combination of operand patterns (dense, permuted, stride-0 on last/first/all axes, diagonal, one-hot, offset, non-zero default, product split) in all four semirings with and without requires_grad, and compared with brute-force loops over all index values (0*inf=0); log_viterbi_einsum_forward must return the maximum and in-range pointers attaining it; mv/mm and the empty operand list are covered.',
                note='Dense operands come from to_dense() (C06). Pointer variant judged without +inf entries. Bounds in evidence.', design='3/C07'),
    'C08': dict(category='exploration', technique='exhaustive sweeps of whole floating-point carriers (all float16 and bfloat16 values; thorough: all 2^32 float32 values and all float16 pairs) through the unary and pair laws, all triples over boundary alphabets for float32/float64, all Bool values, against closed forms and exact arithmetic',
                text='Every value of the 16-bit carriers (thorough: every float32 bit pattern) is pushed through star, the identity / annihilation / infinity laws, sub(x,x)+x, add_/sum and commutativity in the Real, Log and Viterbi semirings and compared with float64 closed forms; associativity, distributivity and sub(x,y)+y=x are checked on all triples/pairs of a 15-value boundary alphabet per dtype against exact rational or 60-digit arithmetic; Bool is checked completely; from_int on 0..8; add/mul/sub on every same-typed pair of patterned operands must equal the dense result.',
                note='float64 cannot be swept. Triples whose exact intermediates overflow/underflow the dtype are skipped and counted. Log/Viterbi tolerances are relative to the largest magnitude involved (values are logarithms).', design='3/C08'),
    'C09': dict(category='exploration', technique='exhaustive enumeration of small dense systems over a 6-value alphabet, of all square same-typed pattern pairs, and of all block-presence patterns of 2-3 key MultiTensors x shapes x transposes x deviations x 4 semirings against exact least-solution oracles',
                text='Semiring.solve is run on every 1x1 and 2x2 system over {0,1/4,1/2,1,2,inf} (all right-hand sides, vector and matrix) in all four semirings and compared with exact least solutions (rational SCC/M-matrix analysis, max-plus Bellman-Ford, Boolean closure); PatternedTensor.solve on every square same-typed pattern pair at sub-, exactly- and super-critical scalings must agree with the dense semiring solver; multi_solve and multi_mv are run on every presence pattern of the blocks of A and b for three shape families, both transposes and key orders, with critical / supercritical / infinite deviations, against the oracle on the assembled dense system; arguments are compared before and after.',
                note='Known finding K04 (numerically singular I-A accepted from LU for critical blocks larger than 2x2). Bounds in evidence.', design='3/C09'),
}

ALL = ['C%02d' % i for i in range(1, 21)]


def main():
    checks = []
    for pid in ALL:
        if pid not in CHECKS or not glob.glob(os.path.join(VERIF, 'checks', pid.lower() + '_*.py')):
            continue
        c = CHECKS[pid]
        checks.append({
            'property_id': pid,
            'quick_cmd': './check %s --tier quick' % pid,
            'thorough_cmd': './check %s --tier thorough' % pid,
            'evidence_file': '/verif/evidence/%s.json' % pid,
            'replay_cmd_template': './check %s --replay {path}' % pid,
            'engine': 'mc',
            'level_claimed': {'category': c['category'], 'text': c['text'], 'design_ref': c['design']},
            'level_note': c['note'],
            'technique': c['technique'],
        })
    claimed = {c['property_id'] for c in checks}
    na = [{'property_id': pid, 'reason': 'check not built yet in this round (planned: bounded exhaustive exploration, see DESIGN.md section 3); not a limit of the technique'}
          for pid in ALL if pid not in claimed]
    m = {
        'version': 1,
        'setup_cmd': 'true',
        'hooks': {'guard': 'FGGS_VERIF', 'enable': 'no source hooks: the harness wraps PatternedTensor.__post_init__ at import time when FGGS_VERIF=1 (set by ./check); /repo is imported directly from its working tree',
                  'baseline_off_cmd': 'cd /repo && /venv/bin/python -m pytest -ra -q -p no:cacheprovider --timeout=900 --continue-on-collection-errors',
                  'source_commits': [], 'add_only': True},
        'engines': [{'name': 'mc', 'path': '/verif/mc', 'serves_properties': sorted(claimed),
                     'kind_free_text': 'hand-written bounded exhaustive explorer for Python: deterministic simplest-first enumerators, explicit-state BFS with canonical hashing, 16-process fork pool, per-case watchdog, exact reference oracles'}],
        'checks': checks,
        'notes': 'All checks run the real implementation from /repo working tree; no model, hence no conformance gap. Known findings in KNOWN_FINDINGS.json.',
        'not_applicable': na,
    }
    with open(os.path.join(VERIF, 'MANIFEST.json'), 'w') as f:
        json.dump(m, f, indent=1)
    print('checks:', sorted(claimed), 'not claimed:', len(na))


if __name__ == '__main__':
    main()
