"""./check <Cnn> --tier quick|thorough [--replay file] [--jobs N]"""
import sys, os, time, json, argparse, importlib, glob, math, warnings
from fractions import Fraction


def load_check(pid):
    pid = pid.upper()
    mods = glob.glob(os.path.join(os.path.dirname(os.path.dirname(os.path.abspath(__file__))),
                                  'checks', pid.lower() + '_*.py'))
    if not mods:
        print('no check module for', pid)
        sys.exit(2)
    name = os.path.basename(mods[0])[:-3]
    return importlib.import_module('checks.' + name)


def main():
    ap = argparse.ArgumentParser()
    ap.add_argument('pid')
    ap.add_argument('--tier', default=os.environ.get('VERIF_TIER', 'quick'), choices=['quick', 'thorough'])
    ap.add_argument('--replay')
    ap.add_argument('--jobs', type=int, default=int(os.environ.get('VERIF_JOBS', '16')))
    args = ap.parse_args()
    t0 = time.time()
    warnings.simplefilter('ignore')
    import torch
    torch.set_num_threads(1)
    sys.setrecursionlimit(2000)
    from mc import core
    import fggs
    if not os.path.abspath(fggs.__file__).startswith(os.path.abspath(core.REPO) + '/'):
        print('fggs is not imported from /repo:', fggs.__file__)
        sys.exit(2)
    check = load_check(args.pid)
    acc = core.Accum()
    if args.replay:
        with open(args.replay) as f:
            body = json.load(f)
        case = eval(body['case_repr'], {'Fraction': Fraction, 'inf': math.inf, 'nan': math.nan})
        r = core.run_one(check, case)
        acc.add(r, case)
        for v in r.viol:
            print('REPLAY-OBSERVED kind=%s site=%s trigger=%s :: %s' % (v['kind'], v['site'], v['trigger'], v['msg']))
        if not r.viol:
            print('REPLAY-OBSERVED no violation')
        sys.exit(core.finish(check, acc, args.tier, t0, replay_mode=True))
    seed = core.seed()
    if hasattr(check, 'explore'):
        check.explore(args.tier, seed, acc, args.jobs)
    else:
        deadline = t0 + check.TIME_CAP_S[args.tier] if hasattr(check, 'TIME_CAP_S') else None
        core.run_pool(check, check.gen_cases(args.tier, seed), acc, jobs=args.jobs, deadline=deadline)
    sys.exit(core.finish(check, acc, args.tier, t0))


if __name__ == '__main__':
    main()
