"""Generates data/hard7.json: edge-bit words of all labelled 7-vertex graphs (ascending vertex order) on which the
min-fill upper bound exceeds the exact treewidth, i.e. on which quickbb has to search.  Deterministic; ~5 min on 16
cores.  Run:  cd /verif && PYTHONPATH=/repo:/verif /venv/bin/python -m mc.gen_hard7"""
import json, os, sys, time, warnings


def main():
    warnings.simplefilter('ignore')
    import torch
    torch.set_num_threads(1)
    import fggs
    from mc import core
    import checks.c10_treedec as c
    t = time.time()
    acc = core.Accum()
    cases = [(7, lo, min(1 << 21, lo + 128)) for lo in range(0, 1 << 21, 128)]
    core.run_pool(c, cases, acc, jobs=16)
    core.close_pool()
    hard = sorted(set(acc.payloads))
    path = os.path.join(core.VERIF, 'data', 'hard7.json')
    with open(path, 'w') as f:
        json.dump(hard, f)
    print(path, len(hard), 'graphs', round(time.time() - t), 's', 'violations while generating:', sum(acc.viol_counts.values()))


if __name__ == '__main__':
    main()
