"""Library-independent grammar IR, enumerators of finite grammar spaces, builders IR -> fggs objects.

IR (all plain literals so a case can be repr()'d into a replay file):
  {'start': 'S',
   'nl':   {'T': 2, 'U': 3},                     node label -> domain size
   'term': {'a': ('T',), ...},                   terminal -> type
   'nt':   {'S': (), 'X': ('T',)},               nonterminal -> type (insertion order = declaration order)
   'rules': [(lhs, (node labels...), (ext node indices...), ((edge label, (node indices...)), ...)), ...],
   'w':    {'a': nested list of Fraction | inf}} exact weights
"""
import itertools, math
from fractions import Fraction

INF = math.inf
PRIMES = [2, 3, 5, 7, 11, 13, 17, 19, 23, 29, 31, 37, 41, 43, 47, 53, 59, 61, 67, 71, 73, 79, 83, 89,
          97, 101, 103, 107, 109, 113, 127, 131, 137, 139, 149, 151, 157, 163, 167, 173, 179, 181,
          191, 193, 197, 199, 211, 223, 227, 229, 233, 239, 241, 251]


# ---------------------------------------------------------------------------------------------
# extended arithmetic on [0, inf] with 0 * inf = 0

def mulx(a, b):
    if a == 0 or b == 0:
        return Fraction(0)
    if a == INF or b == INF:
        return INF
    return a * b


def addx(a, b):
    if a == INF or b == INF:
        return INF
    return a + b


def maxx(a, b):
    if a == INF or b == INF:
        return INF
    return a if a >= b else b


# ---------------------------------------------------------------------------------------------
# rule shapes

def raw_shapes(N, E, A, labels=('T',), max_ext=2, min_nodes=0):
    """(node labels, edge attachment tuples (multiset, sorted), ext tuple of distinct nodes)."""
    for n in range(min_nodes, N + 1):
        for labs in itertools.product(labels, repeat=n):
            cand = [()] + [t for k in range(1, A + 1) for t in itertools.product(range(n), repeat=k)]
            for e in range(E + 1):
                for edges in itertools.combinations_with_replacement(cand, e):
                    for k in range(0, min(max_ext, n) + 1):
                        for ext in itertools.permutations(range(n), k):
                            yield (labs, edges, ext)


def canon_shape(sh):
    labs, edges, ext = sh
    n = len(labs)
    best = None
    for p in itertools.permutations(range(n)):
        nl = [None] * n
        for o in range(n):
            nl[p[o]] = labs[o]
        key = (tuple(nl), tuple(sorted(tuple(p[v] for v in e) for e in edges)), tuple(p[v] for v in ext))
        if best is None or key < best:
            best = key
    return best


_shape_cache = {}


def shapes(N, E, A, labels=('T',), max_ext=2):
    """Canonical representatives, simplest first (nodes, then edges)."""
    k = (N, E, A, labels, max_ext)
    if k not in _shape_cache:
        seen = {}
        for sh in raw_shapes(N, E, A, labels, max_ext):
            c = canon_shape(sh)
            if c not in seen:
                seen[c] = None
        out = sorted(seen, key=lambda s: (len(s[0]), len(s[1]), sum(len(e) for e in s[1]), s))
        _shape_cache[k] = out
    return _shape_cache[k]


def set_partitions(items, maxblocks=2):
    """All partitions of a list into <= maxblocks blocks (restricted growth strings)."""
    n = len(items)

    def rec(i, rgs, mx):
        if i == n:
            yield tuple(rgs)
            return
        for b in range(min(mx + 1, maxblocks - 1) + 1):
            yield from rec(i + 1, rgs + [b], max(mx, b))
    if n == 0:
        yield ()
        return
    yield from rec(1, [0], 0)


def label_assignments(labs, edges, maxvariants=2):
    """Terminal names for the edges of a shape.  A name encodes its type (so one name has one
    type); edges of equal type are partitioned in every way into <= maxvariants label classes:
    one class = the same factor used twice, two classes = two factors of one type."""
    types = [tuple(labs[v] for v in e) for e in edges]
    groups = {}
    for i, t in enumerate(types):
        groups.setdefault(t, []).append(i)
    per_group = []
    for t, idxs in groups.items():
        per_group.append([(t, idxs, rgs) for rgs in set_partitions(idxs, maxvariants)])
    for combo in itertools.product(*per_group):
        names = [None] * len(edges)
        for t, idxs, rgs in combo:
            for i, b in zip(idxs, rgs):
                names[i] = 't' + ''.join(t) + ('_%d' % b if True else '')
        yield tuple(names)


# ---------------------------------------------------------------------------------------------
# weights

def weight_shape(ir, name):
    return tuple(ir['nl'][l] for l in ir['term'][name])


def nested(shape, f, idx=()):
    if not shape:
        return f(idx)
    return [nested(shape[1:], f, idx + (i,)) for i in range(shape[0])]


def generic_weights(ir, rot=0, values=None):
    """Each entry of each terminal a distinct small prime (rot rotates which ones)."""
    k = [rot]
    w = {}
    for name in sorted(ir['term']):
        def f(idx):
            k[0] += 1
            if values is not None:
                return values[(k[0] - 1) % len(values)]
            return Fraction(PRIMES[(k[0] - 1) % len(PRIMES)])
        w[name] = nested(weight_shape(ir, name), f)
    return w


def positions(ir):
    out = []
    for name in sorted(ir['term']):
        for idx in itertools.product(*[range(s) for s in weight_shape(ir, name)]):
            out.append((name, idx))
    return out


def get_entry(w, idx):
    for i in idx:
        w = w[i]
    return w


def set_entry(w, name, idx, val):
    """Functional update of one entry."""
    def rec(x, idx):
        if not idx:
            return val
        return [rec(y, idx[1:]) if i == idx[0] else y for i, y in enumerate(x)]
    w2 = dict(w)
    w2[name] = rec(w[name], idx)
    return w2


def map_nested(w, f):
    if isinstance(w, list):
        return [map_nested(x, f) for x in w]
    return f(w)


def to_real(x):
    return INF if x == INF else float(x)


def to_log(x):
    if x == INF:
        return INF
    if x == 0:
        return -INF
    return math.log(x)


def to_bool(x):
    return x == INF or x > 0


# ---------------------------------------------------------------------------------------------
# semirings / conversions

def semiring(name, dtype='float64'):
    import torch
    from fggs.semirings import RealSemiring, LogSemiring, ViterbiSemiring, BoolSemiring
    dt = {'float64': torch.float64, 'float32': torch.float32}[dtype]
    if name == 'real':
        return RealSemiring(dtype=dt)
    if name == 'log':
        return LogSemiring(dtype=dt)
    if name == 'viterbi':
        return ViterbiSemiring(dtype=dt)
    if name == 'bool':
        return BoolSemiring()
    raise KeyError(name)


def conv_weights(w, sem, dtype='float64'):
    """Exact nested weights -> torch tensor in the encoding of semiring `sem`."""
    import torch
    if sem == 'bool':
        return torch.tensor(map_nested(w, to_bool), dtype=torch.bool)
    dt = {'float64': torch.float64, 'float32': torch.float32}[dtype]
    f = to_real if sem == 'real' else to_log
    return torch.tensor(map_nested(w, f), dtype=dt)


def expected_tensor(vals, shape, sem, dtype='float64'):
    """Oracle values (dict ext assignment -> exact) -> tensor in the encoding of `sem`."""
    import torch
    f = {'real': to_real, 'log': to_log, 'viterbi': to_log, 'bool': to_bool}[sem]
    flat = [f(vals[ea]) for ea in itertools.product(*[range(s) for s in shape])]
    if sem == 'bool':
        return torch.tensor(flat, dtype=torch.bool).reshape(shape)
    dt = {'float64': torch.float64, 'float32': torch.float32}[dtype]
    return torch.tensor(flat, dtype=dt).reshape(shape)


def tensors_agree(z, exp, dtype='float64'):
    """The one tolerance policy: bool bit-exact; structure (shape, infinities, NaN) exact; finite
    values within rtol/atol."""
    import torch
    if tuple(z.shape) != tuple(exp.shape):
        return False
    if z.dtype == torch.bool or exp.dtype == torch.bool:
        return z.dtype == exp.dtype and torch.equal(z, exp)
    if z.dtype != exp.dtype:
        return False
    if torch.isnan(z).any():
        return False
    if not torch.equal(torch.isinf(z), torch.isinf(exp)):
        return False
    inf_mask = torch.isinf(exp)
    if not torch.equal(z[inf_mask], exp[inf_mask]):
        return False
    rtol, atol = (1e-9, 1e-12) if dtype == 'float64' else (1e-4, 1e-6)
    return bool(torch.allclose(z[~inf_mask], exp[~inf_mask], rtol=rtol, atol=atol))


# ---------------------------------------------------------------------------------------------
# builders

def default_pres():
    return {}


def build_rule_graph(ir, rule, pres=None, ri=0):
    """Build the right-hand side through the public Graph API.
    pres keys (all optional): 'node_order': {ri: perm}, 'edge_order': {ri: perm},
    'ids': 'implicit' | 'asc' | 'desc' | 'mixed', 'nl_ren': {old: new}, 'el_ren': {old: new}."""
    import fggs
    pres = pres or {}
    lhs, labs, ext, edges = rule
    n = len(labs)
    ids = pres.get('ids', 'implicit')
    nl_ren = pres.get('nl_ren', {})
    el_ren = pres.get('el_ren', {})
    node_order = pres.get('node_order', {}).get(ri, tuple(range(n)))
    edge_order = pres.get('edge_order', {}).get(ri, tuple(range(len(edges))))
    g = fggs.Graph()
    nodes = [None] * n

    def nid(i):
        if ids == 'implicit':
            return None
        if ids == 'asc':
            return 'n%02d' % i
        if ids == 'desc':
            return 'n%02d' % (50 - i)
        if ids == 'mixed':
            return ('n%d' % (9 + i)) if i % 2 == 0 else None   # 'n10' < 'n9' as strings
        if ids == 'shared':   # ids shared between grammars (conjunction)
            return 'v%d' % i
        raise KeyError(ids)

    def eid(j):
        if ids == 'implicit':
            return None
        if ids == 'asc':
            return 'e%02d' % j
        if ids == 'desc':
            return 'e%02d' % (50 - j)
        if ids == 'mixed':
            return ('e%d' % (9 + j)) if j % 2 == 1 else None
        if ids == 'shared':
            return 'e%d' % j
        raise KeyError(ids)
    for i in node_order:
        nodes[i] = g.new_node(nl_ren.get(labs[i], labs[i]), id=nid(i))
    for j in edge_order:
        lab, att = edges[j]
        is_nt = lab in ir['nt']
        g.new_edge(el_ren.get(lab, lab), [nodes[v] for v in att], is_terminal=not is_nt,
                   is_nonterminal=is_nt, id=eid(j))
    g.ext = [nodes[v] for v in ext]
    return g, nodes


def build_hrg(ir, pres=None, cls=None):
    import fggs
    pres = pres or {}
    nl_ren = pres.get('nl_ren', {})
    el_ren = pres.get('el_ren', {})
    cls = cls or fggs.HRG
    st = ir['start']
    start = fggs.EdgeLabel(el_ren.get(st, st), [fggs.NodeLabel(nl_ren.get(l, l)) for l in ir['nt'][st]],
                           is_nonterminal=True)
    g = cls(start)
    # declare every nonterminal (also those without rules / unreachable)
    for nt, ty in ir['nt'].items():
        g.add_edge_label(fggs.EdgeLabel(el_ren.get(nt, nt), [fggs.NodeLabel(nl_ren.get(l, l)) for l in ty],
                                        is_nonterminal=True))
    order = pres.get('rule_order', tuple(range(len(ir['rules']))))
    for ri in order:
        rule = ir['rules'][ri]
        rhs, _ = build_rule_graph(ir, rule, pres, ri)
        g.new_rule(el_ren.get(rule[0], rule[0]), rhs)
    return g


def build_fgg(ir, sem='real', dtype='float64', pres=None, requires_grad=False, weights=None):
    """IR -> fggs.FGG via the public API.  `weights` optionally maps terminal -> ready-made
    tensor / PatternedTensor (otherwise converted from ir['w']).  pres['dom_perm'] = {label: perm}
    permutes domain values together with the factor axes."""
    import fggs, torch
    pres = pres or {}
    nl_ren = pres.get('nl_ren', {})
    el_ren = pres.get('el_ren', {})
    g = build_hrg(ir, pres, cls=fggs.FGG)
    dom_perm = pres.get('dom_perm', {})
    for l, size in ir['nl'].items():
        vals = list(range(size))
        if l in dom_perm:
            vals = [vals[i] for i in dom_perm[l]]
        g.new_finite_domain(nl_ren.get(l, l), vals)
    for name in ir['term']:
        nm = el_ren.get(name, name)
        if not g.has_edge_label_name(nm):
            continue
        if weights is not None and name in weights:
            t = weights[name]
        else:
            t = conv_weights(ir['w'][name], sem, dtype)
            for ax, l in enumerate(ir['term'][name]):
                if l in dom_perm:
                    t = t.index_select(ax, torch.tensor(dom_perm[l], dtype=torch.long))
            if requires_grad:
                t = t.clone().requires_grad_(True)
        g.new_finite_factor(nm, t)
    return g


def used_terminals(ir):
    return sorted({lab for r in ir['rules'] for lab, _ in r[3] if lab in ir['term']})


def single_rule_ir(shape, names, dom, start_arity_from_ext=True):
    """Family A: S -> shape, terminal edges only."""
    labs, edges, ext = shape
    term = {}
    for nm, e in zip(names, edges):
        term[nm] = tuple(labs[v] for v in e)
    nl = dom if isinstance(dom, dict) else {l: dom for l in set(labs) | {'T'}}
    ir = {'start': 'S', 'nl': dict(nl), 'term': term, 'nt': {'S': tuple(labs[v] for v in ext)},
          'rules': [('S', tuple(labs), tuple(ext), tuple((nm, tuple(e)) for nm, e in zip(names, edges)))]}
    return ir


# ---------------------------------------------------------------------------------------------
# dependency structure

def nt_graph(ir):
    g = {x: set() for x in ir['nt']}
    for lhs, labs, ext, edges in ir['rules']:
        for lab, att in edges:
            if lab in ir['nt']:
                g[lhs].add(lab)
    return g


def reach(g):
    """Transitive closure: r[x] = set of y reachable by >= 1 edge."""
    r = {x: set(g[x]) for x in g}
    changed = True
    while changed:
        changed = False
        for x in r:
            new = set()
            for y in r[x]:
                new |= r[y]
            if not new <= r[x]:
                r[x] |= new
                changed = True
    return r


def is_recursive(ir):
    r = reach(nt_graph(ir))
    return any(x in r[x] for x in r)


def topo_nts(ir):
    """Nonterminals ordered so that dependencies come first (non-recursive IR only)."""
    g = nt_graph(ir)
    done, order = set(), []

    def visit(x):
        if x in done:
            return
        done.add(x)
        for y in sorted(g[x]):
            visit(y)
        order.append(x)
    for x in ir['nt']:
        visit(x)
    return order
