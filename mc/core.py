"""Exploration engine shared by all checks.

A check module provides

    PID, LEVEL ('exploration' | 'model_checking'), RULE (str), ASSUMPTIONS (list of str)
    bounds(tier) -> dict                       (recorded in the evidence)
    gen_cases(tier, seed) -> iterator of cases (small, picklable, JSON-able via describe())
    run_case(case) -> Res                      (runs the real library on one case and judges it)
  or, for explicit-state searches that drive themselves,
    explore(tier, seed, acc) -> None           (fills an Accum directly)

Everything is enumeration: the generator is the single source of truth for the bound, a cap that
cuts the enumeration short is recorded and clears `exhaustive`.
"""
import os, sys, json, time, hashlib, signal, traceback, collections, itertools, subprocess
import multiprocessing as mp

VERIF = os.path.dirname(os.path.dirname(os.path.abspath(__file__)))
REPO = os.environ.get('FGGS_REPO', '/repo')
CASE_TIMEOUT_S = 120.0


def seed():
    try:
        return int(os.environ.get('VERIF_SEED', '0'))
    except ValueError:
        return 0


class CaseTimeout(BaseException):
    """BaseException so that a check's own `except Exception` cannot swallow the watchdog."""
    pass


def _alarm(signum, frame):
    raise CaseTimeout('case exceeded its watchdog budget (%s)' % ('cpu' if signum == signal.SIGPROF else 'wall'))


def h8(x):
    """Stable 8-byte hash of a repr-able key (independent of PYTHONHASHSEED)."""
    return hashlib.blake2b(repr(x).encode(), digest_size=8).digest()


def exc_site(e, depth=2):
    """Innermost `depth` frames of the traceback that lie inside /repo/fggs, as 'module.func'
    (no line numbers, so the signature survives unrelated edits)."""
    frames = []
    for fs in traceback.extract_tb(e.__traceback__):
        fn = fs.filename.replace('\\', '/')
        if '/fggs/' in fn and '/verif/' not in fn:
            frames.append(os.path.basename(fn)[:-3] + '.' + fs.name)
    if not frames:
        return 'outside-fggs'
    return '<'.join(reversed(frames[-depth:]))


def exc_kind(e):
    return type(e).__name__


def jsonable(x):
    """Best-effort conversion of a case to plain JSON."""
    from fractions import Fraction
    import math
    if isinstance(x, dict):
        return {str(k): jsonable(v) for k, v in x.items()}
    if isinstance(x, (list, tuple, set, frozenset)):
        return [jsonable(v) for v in (sorted(x, key=repr) if isinstance(x, (set, frozenset)) else x)]
    if isinstance(x, Fraction):
        return str(x)
    if isinstance(x, float):
        if math.isinf(x) or math.isnan(x):
            return repr(x)
        return x
    if isinstance(x, (str, int, bool)) or x is None:
        return x
    return repr(x)


class Res:
    """Result of one case.  n = evaluations (library executions judged), nt = keys of the
    non-trivial ones, out = outcome keys (what was observed), viol = violations, excl = counts of
    sub-cases that were out of scope / not decidable by the oracle (never judged)."""
    __slots__ = ('n', 'nt', 'out', 'viol', 'excl', 'states', 'trans', 'payload')

    def __init__(self):
        self.n = 0
        self.nt = []
        self.out = []
        self.viol = []
        self.excl = collections.Counter()
        self.states = 0
        self.trans = 0
        self.payload = []

    def ok(self, key=None, outcome=None, nontrivial=True):
        self.n += 1
        if nontrivial and key is not None:
            self.nt.append(key)
        if outcome is not None:
            self.out.append(outcome)

    def bad(self, kind, site, trigger, msg, case=None, key=None):
        self.n += 1
        self.viol.append({'kind': kind, 'site': site, 'trigger': trigger, 'msg': str(msg)[:400],
                          'case': case})
        if key is not None:
            self.nt.append(key)

    def exc(self, e, trigger, case=None, key=None, msg=None):
        self.bad(exc_kind(e), exc_site(e), trigger,
                 msg or ('%s: %s' % (type(e).__name__, str(e)[:300])), case, key)


class Accum:
    def __init__(self):
        self.evaluations = 0
        self.nt = set()
        self.outcomes = collections.Counter()
        self.viol = []            # stored violations (capped per signature)
        self.viol_counts = collections.Counter()
        self.excl = collections.Counter()
        self.samples = []
        self.cases = 0
        self.states = 0
        self.transitions = 0
        self.caps = []
        self.extra = {}
        self.payloads = []
        self.exhaustive = True

    def add(self, r, case=None):
        self.cases += 1
        self.evaluations += r.n
        for k in r.nt:
            self.nt.add(h8(k))
        for o in r.out:
            self.outcomes[o if isinstance(o, str) else repr(o)] += 1
        self.excl.update(r.excl)
        self.states += r.states
        self.transitions += r.trans
        self.payloads.extend(r.payload)
        for v in r.viol:
            sig = (v['kind'], v['site'], v['trigger'])
            self.viol_counts[sig] += 1
            if self.viol_counts[sig] <= 3:
                if v.get('case') is None:
                    v['case'] = case
                self.viol.append(v)

    def merge_chunk(self, ch):
        (cases, ev, nt, out, viol, vc, excl, st, tr, pl) = ch
        self.payloads.extend(pl)
        self.cases += cases
        self.evaluations += ev
        self.nt |= nt
        self.outcomes.update(out)
        self.excl.update(excl)
        self.states += st
        self.transitions += tr
        for v in viol:
            sig = (v['kind'], v['site'], v['trigger'])
            if sum(1 for w in self.viol if (w['kind'], w['site'], w['trigger']) == sig) < 3:
                self.viol.append(v)
        self.viol_counts.update(vc)


_CHECK = None


def _init_worker():
    signal.signal(signal.SIGALRM, _alarm)
    signal.signal(signal.SIGPROF, _alarm)
    try:
        import torch
        torch.set_num_threads(1)
    except Exception:
        pass


def run_one(check, case):
    """Run one case under the watchdog; an escape from run_case is itself a violation (the check
    modules catch and classify the exceptions they expect)."""
    # the budget is CPU time of this process (ITIMER_PROF), so that a busy machine cannot turn a slow case into an
    # alarm; a wall-clock backstop of 6x the budget still catches a case that sleeps forever
    budget = getattr(check, 'CASE_TIMEOUT_S', CASE_TIMEOUT_S)
    signal.signal(signal.SIGALRM, _alarm)
    signal.signal(signal.SIGPROF, _alarm)
    signal.setitimer(signal.ITIMER_PROF, budget)
    signal.setitimer(signal.ITIMER_REAL, 6 * budget)
    try:
        r = check.run_case(case)
    except CaseTimeout as e:
        r = Res()
        r.bad('no-answer', 'watchdog', 'timeout', str(e), case)
    except RecursionError as e:
        r = Res()
        r.bad('no-answer', exc_site(e), 'recursion', 'RecursionError', case)
    except Exception as e:
        r = Res()
        r.bad('uncaught:' + exc_kind(e), exc_site(e), 'any',
              ''.join(traceback.format_exception_only(type(e), e))[:300] + ' @ ' +
              ' / '.join('%s:%s' % (os.path.basename(f.filename), f.name)
                         for f in traceback.extract_tb(e.__traceback__)[-4:]), case)
    finally:
        signal.setitimer(signal.ITIMER_PROF, 0)
        signal.setitimer(signal.ITIMER_REAL, 0)
    return r


def _work(chunk):
    a = Accum()
    for case in chunk:
        r = run_one(_CHECK, case)
        for v in r.viol:
            if v.get('case') is None:
                v['case'] = case
        a.add(r, case)
    return (a.cases, a.evaluations, a.nt, a.outcomes, a.viol, a.viol_counts, a.excl,
            a.states, a.transitions, a.payloads)


def chunks(it, n):
    it = iter(it)
    while True:
        c = list(itertools.islice(it, n))
        if not c:
            return
        yield c


def run_pool(check, cases, acc, jobs=16, chunk=None, deadline=None):
    """Dispatch all cases to a fork pool.  The parent keeps the first few cases as samples."""
    global _CHECK
    _CHECK = check
    chunk = chunk or getattr(check, 'CHUNK', 64)

    def feed():
        for i, c in enumerate(cases):
            if i < 3 or (i % 9973 == 0 and len(acc.samples) < 6):
                acc.samples.append(c)
            yield c
    if jobs <= 1:
        _init_worker()
        for ch in chunks(feed(), chunk):
            acc.merge_chunk(_work(ch))
            if deadline and time.time() > deadline:
                acc.caps.append('time cap hit after %d cases' % acc.cases)
                acc.exhaustive = False
                break
        return
    pool = get_pool(jobs)
    for res in pool.imap_unordered(_work, chunks(feed(), chunk)):
        acc.merge_chunk(res)
        if deadline and time.time() > deadline:
            acc.caps.append('time cap hit after %d cases' % acc.cases)
            acc.exhaustive = False
            close_pool(terminate=True)
            break


_POOL = None


def get_pool(jobs):
    """One fork pool per check run (forking is slow in this sandbox); created after the check module
    and torch/fggs are imported so that the workers inherit them."""
    global _POOL
    if _POOL is None:
        import gc
        gc.collect()
        gc.freeze()     # keep the GC from touching (and so copying) the parent's pages in every child
        _POOL = mp.get_context('fork').Pool(jobs, initializer=_init_worker)
    return _POOL


def close_pool(terminate=False):
    global _POOL
    if _POOL is not None:
        if terminate:
            _POOL.terminate()
        else:
            _POOL.close()
        _POOL.join()
        _POOL = None


# ----------------------------------------------------------------------------------------------
# known findings, evidence, replay files

def load_known(pid):
    p = os.path.join(VERIF, 'KNOWN_FINDINGS.json')
    if not os.path.exists(p):
        return []
    with open(p) as f:
        data = json.load(f)
    return [e for e in data.get('findings', []) if e.get('property') == pid and e.get('status') == 'known']


def match_known(v, known):
    import fnmatch
    for e in known:
        if (fnmatch.fnmatchcase(v['kind'], e['kind']) and fnmatch.fnmatchcase(v['site'], e['site'])
                and e['trigger'] == v['trigger']):
            return e
    return None


def safe_describe(describe, case):
    if describe is None:
        return case
    try:
        return describe(case)
    except Exception:
        return case


def write_replay(pid, v, describe):
    d = os.path.join(VERIF, 'replays') if REPO == '/repo' else '/tmp/mw/replays'
    os.makedirs(d, exist_ok=True)
    case = v.get('case')
    body = {'property': pid, 'kind': v['kind'], 'site': v['site'], 'trigger': v['trigger'],
            'msg': v['msg'], 'case': jsonable(safe_describe(describe, case)),
            'case_repr': repr(case)}
    s = json.dumps(body, sort_keys=True, indent=1)
    name = '%s-%s.json' % (pid, hashlib.sha1(s.encode()).hexdigest()[:12])
    path = os.path.join(d, name)
    with open(path, 'w') as f:
        f.write(s)
    return path


def validate_evidence(path):
    """Validate against the given schema using the tooling venv (which has jsonschema)."""
    code = ("import json,sys,jsonschema;"
            "s=json.load(open('/root/.vp/EVIDENCE.schema.json'));"
            "jsonschema.validate(json.load(open(sys.argv[1])),s)")
    for py in ('python3-vt', '/opt/veriftools/pyvenv/bin/python'):
        try:
            p = subprocess.run([py, '-c', code, path], capture_output=True, text=True, timeout=60)
        except (FileNotFoundError, subprocess.TimeoutExpired):
            continue
        if p.returncode != 0:
            print('EVIDENCE-INVALID %s: %s' % (path, p.stderr.strip()[-500:]))
            return False
        return True
    return None  # validator unavailable: not an error of the check


def finish(check, acc, tier, t0, replay_mode=False):
    close_pool()
    pid = check.PID
    known = load_known(pid)
    describe = getattr(check, 'describe', None)
    unknown, hits = [], collections.OrderedDict()
    for v in acc.viol:
        e = match_known(v, known)
        if e is None:
            unknown.append(v)
        else:
            hits.setdefault(e['id'], [e, 0])
    for sig, n in acc.viol_counts.items():
        e = match_known({'kind': sig[0], 'site': sig[1], 'trigger': sig[2]}, known)
        if e is not None:
            hits.setdefault(e['id'], [e, 0])[1] += n
    for fid, (e, n) in hits.items():
        print('KNOWN-FINDING: property=%s %s: %s (%d cases this run)' % (pid, fid, e['description'], n))
    n_unknown = sum(n for sig, n in acc.viol_counts.items()
                    if match_known({'kind': sig[0], 'site': sig[1], 'trigger': sig[2]}, known) is None)
    replays = []
    seen_sig = set()
    for v in unknown:
        sig = (v['kind'], v['site'], v['trigger'])
        if sig in seen_sig:
            continue
        seen_sig.add(sig)
        path = write_replay(pid, v, describe)
        replays.append(path)
        print('VIOLATION property=%s replay=%s' % (pid, path))
        print('  kind=%s site=%s trigger=%s count=%d :: %s' % (v['kind'], v['site'], v['trigger'],
                                                              acc.viol_counts[sig], v['msg'][:300]))
    wall = time.time() - t0
    if replay_mode:
        return 1 if unknown else 0
    level = check.LEVEL
    cov = {
        'evaluations': int(acc.evaluations),
        'distinct_nontrivial': len(acc.nt),
        'rule': check.RULE,
        'samples': [jsonable(safe_describe(describe, c)) for c in acc.samples[:6]],
        'exhaustive': bool(acc.exhaustive and not acc.caps),
        'cases': acc.cases,
        'bounds': jsonable(check.bounds(tier)) if hasattr(check, 'bounds') else {},
        'distinct_outcomes': len(acc.outcomes),
        'outcome_histogram_top': {k: v for k, v in acc.outcomes.most_common(12)},
        'excluded_not_judged': {str(k): v for k, v in acc.excl.items()},
        'caps_hit': acc.caps,
        'known_findings_hit': {fid: n for fid, (e, n) in hits.items()},
    }
    if level == 'model_checking':
        cov['states'] = int(acc.states)
        cov['transitions'] = int(acc.transitions)
        # every explored transition is an execution of the implementation itself
        cov['traces_validated_against_impl'] = int(acc.transitions)
    cov.update(jsonable(acc.extra))
    if not cov['samples']:
        cov['samples'] = ['(no cases)']
    ev = {'property_id': pid, 'tier': tier, 'seed': seed(), 'level': level, 'coverage': cov,
          'assumptions': list(getattr(check, 'ASSUMPTIONS', [])), 'wall_s': round(wall, 2),
          'violations': int(n_unknown)}
    d = os.path.join(VERIF, 'evidence') if REPO == '/repo' else '/tmp/mw/evidence'   # mutant runs never touch evidence/
    os.makedirs(d, exist_ok=True)
    path = os.path.join(d, pid + '.json')
    with open(path, 'w') as f:
        json.dump(ev, f, indent=1, sort_keys=True)
    ok = validate_evidence(path)
    print('%s tier=%s seed=%d cases=%d evaluations=%d distinct_nontrivial=%d outcomes=%d '
          'states=%d transitions=%d excluded=%d known=%d violations=%d exhaustive=%s wall=%.1fs' % (
              pid, tier, seed(), acc.cases, acc.evaluations, len(acc.nt), len(acc.outcomes),
              acc.states, acc.transitions, sum(acc.excl.values()),
              sum(n for _, n in hits.values()), n_unknown, cov['exhaustive'], wall))
    if ok is False:
        return 2
    return 1 if n_unknown else 0
