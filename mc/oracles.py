"""Reference models in plain Python: exact rationals, brute-force loops, closures."""
import itertools, math
from fractions import Fraction
from mc.ir import INF, mulx, addx, maxx, get_entry, topo_nts, nt_graph, reach


def ext_shape(ir, nt):
    return tuple(ir['nl'][l] for l in ir['nt'][nt])


def all_assts(shape):
    return itertools.product(*[range(s) for s in shape])


def rule_value(ir, rule, val, w, mode, ea):
    """Sum (or max) over assignments to the non-external nodes of the product of the edge weights,
    for external assignment ea.  Edgeless internal nodes are summed like any other node (so they
    contribute their domain size in 'sum' mode and a factor 1 in 'max' mode)."""
    lhs, labs, ext, edges = rule
    n = len(labs)
    free = [i for i in range(n) if i not in ext]
    tot = Fraction(0)
    for ia in itertools.product(*[range(ir['nl'][labs[i]]) for i in free]):
        a = [None] * n
        for v, x in zip(ext, ea):
            a[v] = x
        for v, x in zip(free, ia):
            a[v] = x
        p = Fraction(1)
        for lab, att in edges:
            if lab in ir['term']:
                x = get_entry(w[lab], tuple(a[v] for v in att))
            else:
                x = val[lab][tuple(a[v] for v in att)]
            p = mulx(p, x)
            if p == 0:
                break
        tot = addx(tot, p) if mode == 'sum' else maxx(tot, p)
    return tot


def step(ir, val, w, mode, nts=None):
    """One application of the grammar's equations F to val (dict nt -> dict asst -> value)."""
    new = {}
    for nt in (nts if nts is not None else ir['nt']):
        shape = ext_shape(ir, nt)
        v = {ea: Fraction(0) for ea in all_assts(shape)}
        for rule in ir['rules']:
            if rule[0] != nt:
                continue
            for ea in v:
                x = rule_value(ir, rule, val, w, mode, ea)
                v[ea] = addx(v[ea], x) if mode == 'sum' else maxx(v[ea], x)
        new[nt] = v
    return new


def eval_nonrec(ir, w=None, mode='sum'):
    """Exact sum-product (mode 'sum') or max-product (mode 'max') of every nonterminal of a
    non-recursive IR.  Returns dict nt -> dict ext assignment -> Fraction | inf."""
    w = w if w is not None else ir['w']
    val = {}
    for nt in topo_nts(ir):
        val.update(step(ir, val, w, mode, [nt]))
    return val


def zero_val(ir):
    return {nt: {ea: Fraction(0) for ea in all_assts(ext_shape(ir, nt))} for nt in ir['nt']}


def kleene_exact(ir, w=None, mode='max', max_iter=None):
    """Kleene iteration from zero in exact arithmetic until a fixed point is reached.
    Returns (val, iterations) or (None, iterations) when no fixed point within max_iter
    (still improving => unbounded or infinite ascending chain => out of scope)."""
    w = w if w is not None else ir['w']
    val = zero_val(ir)
    n_entries = sum(len(v) for v in val.values())
    max_iter = max_iter or (n_entries + 2)
    for k in range(max_iter + 1):
        new = step(ir, val, w, mode)
        if new == val:
            return val, k
        val = new
    return None, max_iter


def bool_lfp(ir, w=None):
    """Boolean least fixed point: which entries have a derivation with nonzero weight."""
    w = w if w is not None else ir['w']
    wb = {k: _map(v, lambda x: Fraction(1) if (x == INF or x > 0) else Fraction(0)) for k, v in w.items()}
    val = zero_val(ir)
    while True:
        new = step(ir, val, wb, 'max')
        new = {nt: {ea: (Fraction(1) if x > 0 else Fraction(0)) for ea, x in v.items()} for nt, v in new.items()}
        if new == val:
            return val
        val = new


def _map(w, f):
    if isinstance(w, list):
        return [_map(x, f) for x in w]
    return f(w)


# ---------------------------------------------------------------------------------------------
# high-precision Kleene iteration for Real / Log least fixed points

def kleene_mp(ir, w=None, digits=50, max_iter=5000, eps_exp=-30, trace=None, rec_nts=None):
    """Kleene iteration in mpmath.  Returns ('finite', val, rho_estimate) when the increment drops
    below 10**eps_exp within max_iter steps, ('divergent', None, None) if some entry exceeds 1e30
    or an infinite weight is reachable, ('undecided', None, None) otherwise."""
    import mpmath
    w = w if w is not None else ir['w']
    mp = mpmath.mp.clone() if hasattr(mpmath.mp, 'clone') else mpmath.mp
    mp.dps = digits
    mpf = mp.mpf

    def conv(x):
        if x == INF:
            return mp.inf
        return mpf(x.numerator) / mpf(x.denominator) if isinstance(x, Fraction) else mpf(x)
    wm = {k: _map(v, conv) for k, v in w.items()}
    nts = list(ir['nt'])
    val = {nt: {ea: mpf(0) for ea in all_assts(ext_shape(ir, nt))} for nt in nts}
    eps = mpf(10) ** eps_exp
    prev_inc = None
    ratio = None
    for k in range(max_iter):
        new = {}
        for nt in nts:
            v = {ea: mpf(0) for ea in val[nt]}
            for rule in ir['rules']:
                if rule[0] != nt:
                    continue
                for ea in v:
                    v[ea] += _rule_value_mp(ir, rule, val, wm, ea, mpf)
            new[nt] = v
        inc = mpf(0)
        big = False
        for nt in nts:
            for ea in new[nt]:
                x = new[nt][ea]
                if x != x:
                    return ('undecided', None, None)
                if x == mp.inf or x > mpf(10) ** 30:
                    big = True
                d = abs(x - val[nt][ea]) if x != mp.inf else mp.inf
                if d > inc:
                    inc = d
        if big:
            return ('divergent', None, None)
        if trace is not None:
            # per iteration: largest increment among the nonterminals of recursive components, and the start value
            # computed from the previous iterate (used for an amplification-aware error bound)
            inc_r = max([abs(new[nt][ea] - val[nt][ea]) for nt in (rec_nts if rec_nts is not None else nts) for ea in new[nt]] or [mpf(0)])
            trace.append((float(inc_r), {ea: float(x) for ea, x in new[ir['start']].items()}))
        val = new
        if prev_inc is not None and prev_inc > 0 and inc > 0:
            ratio = inc / prev_inc
        prev_inc = inc
        if inc < eps:
            return ('finite', val, float(ratio) if ratio is not None else 0.0)
    return ('undecided', None, None)


def _rule_value_mp(ir, rule, val, w, ea, mpf):
    lhs, labs, ext, edges = rule
    n = len(labs)
    free = [i for i in range(n) if i not in ext]
    tot = mpf(0)
    for ia in itertools.product(*[range(ir['nl'][labs[i]]) for i in free]):
        a = [None] * n
        for v, x in zip(ext, ea):
            a[v] = x
        for v, x in zip(free, ia):
            a[v] = x
        p = mpf(1)
        zero = False
        for lab, att in edges:
            if lab in ir['term']:
                x = get_entry(w[lab], tuple(a[v] for v in att))
            else:
                x = val[lab][tuple(a[v] for v in att)]
            if x == 0:
                zero = True
                break
            p = p * x
        if not zero:
            tot += p
    return tot


# ---------------------------------------------------------------------------------------------
# graph oracles

def scc_oracle(adj):
    """SCC partition by transitive closure; adj: dict v -> iterable of successors."""
    g = {v: set(adj[v]) for v in adj}
    r = reach(g)
    comps = {}
    for v in g:
        comp = frozenset([v] + [u for u in g if u in r[v] and v in r[u]])
        comps[v] = comp
    return set(comps.values()), r


def treewidth(adj):
    """Exact treewidth by DP over vertex subsets (elimination orderings): n <= ~10."""
    vs = sorted(adj, key=repr)
    n = len(vs)
    if n == 0:
        return -1   # width of the empty decomposition (one empty bag): -1; callers handle
    idx = {v: i for i, v in enumerate(vs)}
    nb = [0] * n
    for v in vs:
        for u in adj[v]:
            if u != v:
                nb[idx[v]] |= 1 << idx[u]
                nb[idx[u]] |= 1 << idx[v]

    def q(S, v):
        """number of vertices outside S+{v} reachable from v through S"""
        seen = 1 << v
        stack = [v]
        cnt = 0
        while stack:
            x = stack.pop()
            m = nb[x] & ~seen
            while m:
                b = m & -m
                y = b.bit_length() - 1
                seen |= b
                m ^= b
                if S >> y & 1:
                    stack.append(y)
                else:
                    cnt += 1
        return cnt
    full = (1 << n) - 1
    TW = {0: -1}
    for size in range(1, n + 1):
        for comb in itertools.combinations(range(n), size):
            S = 0
            for c in comb:
                S |= 1 << c
            best = n
            for v in comb:
                S2 = S & ~(1 << v)
                best = min(best, max(TW[S2], q(S2, v)))
            TW[S] = best
    return TW[full]


# ---------------------------------------------------------------------------------------------
# exact gradients: forward-mode with sparse gradient dictionaries over weight entries

class G:
    """value + sparse gradient (dict entry -> number). Entries: (terminal, index tuple)."""
    __slots__ = ('v', 'd')

    def __init__(self, v, d=None):
        self.v = v
        self.d = d or {}

    def __add__(self, o):
        d = dict(self.d)
        for k, x in o.d.items():
            d[k] = d.get(k, 0) + x
        return G(self.v + o.v, d)

    def __mul__(self, o):
        d = {}
        if o.v != 0:
            for k, x in self.d.items():
                d[k] = x * o.v
        if self.v != 0:
            for k, x in o.d.items():
                d[k] = d.get(k, 0) + x * self.v
        return G(self.v * o.v, d)


def grad_step(ir, val, wg, zero, one, nts=None):
    new = {}
    for nt in (nts if nts is not None else ir['nt']):
        shape = ext_shape(ir, nt)
        v = {ea: G(zero) for ea in all_assts(shape)}
        for rule in ir['rules']:
            if rule[0] != nt:
                continue
            lhs, labs, ext, edges = rule
            n = len(labs)
            free = [i for i in range(n) if i not in ext]
            for ea in v:
                for ia in itertools.product(*[range(ir['nl'][labs[i]]) for i in free]):
                    a = [None] * n
                    for vv, x in zip(ext, ea):
                        a[vv] = x
                    for vv, x in zip(free, ia):
                        a[vv] = x
                    p = G(one)
                    for lab, att in edges:
                        idx = tuple(a[i] for i in att)
                        x = get_entry(wg[lab], idx) if lab in ir['term'] else val[lab][idx]
                        p = p * x
                    v[ea] = v[ea] + p
        new[nt] = v
    return new


def weights_as_G(ir, w, conv=lambda x: x):
    from mc.ir import nested, weight_shape
    one = conv(Fraction(1))
    return {name: nested(weight_shape(ir, name), lambda idx, name=name: G(conv(get_entry(w[name], idx)), {(name, idx): one}))
            for name in ir['term']}


def grad_nonrec(ir, w):
    """Exact dZ/dw for every nonterminal entry and weight entry of a non-recursive IR (finite weights)."""
    wg = weights_as_G(ir, w)
    val = {}
    for nt in topo_nts(ir):
        val.update(grad_step(ir, val, wg, Fraction(0), Fraction(1), [nt]))
    return val


def grad_kleene_mp(ir, w, digits=40, max_iter=4000, eps_exp=-25):
    """Value and gradient of the least fixed point by forward-mode Kleene iteration in mpmath.
    Returns val (dict nt -> ea -> G with mpf entries) or None when not converged."""
    import mpmath
    mp = mpmath.mp
    mp.dps = digits
    mpf = mp.mpf

    def conv(x):
        return mpf(x.numerator) / mpf(x.denominator)
    wg = weights_as_G(ir, w, conv)
    val = {nt: {ea: G(mpf(0)) for ea in all_assts(ext_shape(ir, nt))} for nt in ir['nt']}
    eps = mpf(10) ** eps_exp
    for k in range(max_iter):
        new = grad_step(ir, val, wg, mpf(0), mpf(1))
        inc = mpf(0)
        for nt in new:
            for ea in new[nt]:
                a, b = new[nt][ea], val[nt][ea]
                inc = max(inc, abs(a.v - b.v))
                for kk in set(a.d) | set(b.d):
                    inc = max(inc, abs(a.d.get(kk, 0) - b.d.get(kk, 0)))
                if a.v > mpf(10) ** 20:
                    return None
        val = new
        if inc < eps:
            return val
    return None


# ---------------------------------------------------------------------------------------------
# least solutions of x = A x + b over [0, inf]  (exact rationals), max-plus, Boolean

def _sccs(n, succ):
    """SCCs of a digraph on range(n) (succ[i] = set), listed dependencies-first (sinks first)."""
    index, low, stack, on, comps, counter = {}, {}, [], set(), [], [0]

    def visit(v):
        index[v] = low[v] = counter[0]
        counter[0] += 1
        stack.append(v)
        on.add(v)
        for w in succ[v]:
            if w not in index:
                visit(w)
                low[v] = min(low[v], low[w])
            elif w in on:
                low[v] = min(low[v], index[w])
        if low[v] == index[v]:
            comp = []
            while True:
                w = stack.pop()
                on.discard(w)
                comp.append(w)
                if w == v:
                    break
            comps.append(comp)
    for v in range(n):
        if v not in index:
            visit(v)
    return comps


def least_solution_real(A, b):
    """Least solution in [0,inf]^n of x = A x + b; A (n x n), b (n) with Fraction / inf entries.  Exact."""
    n = len(b)
    pos = lambda v: v == INF or v > 0
    succ = [set(j for j in range(n) if pos(A[i][j])) for i in range(n)]
    # support: i with a path to some j with b_j > 0
    supp = set(j for j in range(n) if pos(b[j]))
    changed = True
    while changed:
        changed = False
        for i in range(n):
            if i not in supp and succ[i] & supp:
                supp.add(i)
                changed = True
    x = [Fraction(0)] * n
    comps = _sccs(n, [s & supp if i in supp else set() for i, s in enumerate(succ)])
    for C in comps:
        C = [i for i in C if i in supp]
        if not C:
            continue
        Cs = set(C)
        rhs = {}
        for i in C:
            t = b[i]
            for j in succ[i] - Cs:
                if j in supp:
                    t = addx(t, mulx(A[i][j], x[j]))
            rhs[i] = t
        cyclic = len(C) > 1 or (C[0] in succ[C[0]])
        if not cyclic:
            x[C[0]] = rhs[C[0]]
            continue
        # irreducible block: everything in C is positive; any infinity or rho >= 1 makes all of C infinite
        blow = any(rhs[i] == INF for i in C) or any(A[i][j] == INF for i in C for j in C if j in succ[i])
        if not blow:
            M = [[(Fraction(1) if i == j else Fraction(0)) - (A[i][j] if j in succ[i] else 0) for j in C] for i in C]
            blow = not _leading_minors_positive(M)
        if blow:
            for i in C:
                x[i] = INF
            continue
        sol = _gauss([row[:] for row in M], [rhs[i] for i in C])
        for i, v in zip(C, sol):
            x[i] = v
    return x


def critical_block_sizes(A, b):
    """Sizes of the irreducible blocks (within the support of the solution) of x = A x + b whose spectral radius is
    EXACTLY one and that have no infinite entry: I - A_C is a singular M-matrix (all proper leading minors positive,
    determinant zero).  Exact rational arithmetic."""
    n = len(b)
    pos = lambda v: v == INF or v > 0
    succ = [set(j for j in range(n) if pos(A[i][j])) for i in range(n)]
    supp = set(j for j in range(n) if pos(b[j]))
    changed = True
    while changed:
        changed = False
        for i in range(n):
            if i not in supp and succ[i] & supp:
                supp.add(i)
                changed = True
    out = []
    for C in _sccs(n, [s & supp if i in supp else set() for i, s in enumerate(succ)]):
        C = [i for i in C if i in supp]
        if not C or not (len(C) > 1 or C[0] in succ[C[0]]):
            continue
        if any(A[i][j] == INF for i in C for j in C):
            continue
        M = [[(Fraction(1) if i == j else Fraction(0)) - (A[i][j] if j in succ[i] else 0) for j in C] for i in C]
        k = len(C)
        if all(_det([row[:m] for row in M[:m]]) > 0 for m in range(1, k)) and _det(M) == 0:
            out.append(k)
    return out


def _det(M):
    n = len(M)
    M = [row[:] for row in M]
    d = Fraction(1)
    for c in range(n):
        p = next((r for r in range(c, n) if M[r][c] != 0), None)
        if p is None:
            return Fraction(0)
        if p != c:
            M[c], M[p] = M[p], M[c]
            d = -d
        d *= M[c][c]
        for r in range(c + 1, n):
            f = M[r][c] / M[c][c]
            for k in range(c, n):
                M[r][k] -= f * M[c][k]
    return d


def _leading_minors_positive(M):
    return all(_det([row[:k] for row in M[:k]]) > 0 for k in range(1, len(M) + 1))


def _gauss(M, v):
    n = len(v)
    for c in range(n):
        p = next(r for r in range(c, n) if M[r][c] != 0)
        M[c], M[p] = M[p], M[c]
        v[c], v[p] = v[p], v[c]
        for r in range(n):
            if r != c and M[r][c] != 0:
                f = M[r][c] / M[c][c]
                for k in range(c, n):
                    M[r][k] -= f * M[c][k]
                v[r] -= f * v[c]
    return [v[i] / M[i][i] for i in range(n)]


def least_solution_maxplus(A, b):
    """Least solution of x_i = max(b_i, max_j A_ij + x_j) over [-inf, inf] (floats).  A positive cycle that can
    reach a finite b makes the entries depending on it +inf."""
    n = len(b)
    NEG = -math.inf

    def plus(a, c):
        if a == NEG or c == NEG:
            return NEG
        return a + c
    x = list(b)
    for _ in range(n + 1):
        y = [max([b[i]] + [plus(A[i][j], x[j]) for j in range(n)]) for i in range(n)]
        if y == x:
            return x
        x = y
    for _ in range(n + 1):
        y = [max([b[i]] + [plus(A[i][j], x[j]) for j in range(n)]) for i in range(n)]
        x = [math.inf if (yi > xi + 1e-12 * max(1.0, abs(xi)) or yi == math.inf) else xi for xi, yi in zip(x, y)]
    return x


def least_solution_bool(A, b):
    n = len(b)
    x = list(b)
    changed = True
    while changed:
        changed = False
        for i in range(n):
            if not x[i] and any(A[i][j] and x[j] for j in range(n)):
                x[i] = True
                changed = True
    return x
