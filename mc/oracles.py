"""Reference models in plain Python: exact rationals, brute-force loops, closures."""
import itertools, math
from fractions import Fraction
from mc.ir import INF, mulx, addx, maxx, get_entry, topo_nts, nt_graph, reach


def ext_shape(ir, nt):
    return tuple(ir['nl'][l] for l in ir['nt'][nt])


def all_assts(shape):
    return itertools.product(*[range(s) for s in shape])


def rule_value(ir, rule, val, w, mode, ea):
    """Sum (or max) over assignments to the non-external nodes of the product of the edge weights,
    for external assignment ea.  Edgeless internal nodes are summed like any other node (so they
    contribute their domain size in 'sum' mode and a factor 1 in 'max' mode)."""
    lhs, labs, ext, edges = rule
    n = len(labs)
    free = [i for i in range(n) if i not in ext]
    tot = Fraction(0)
    for ia in itertools.product(*[range(ir['nl'][labs[i]]) for i in free]):
        a = [None] * n
        for v, x in zip(ext, ea):
            a[v] = x
        for v, x in zip(free, ia):
            a[v] = x
        p = Fraction(1)
        for lab, att in edges:
            if lab in ir['term']:
                x = get_entry(w[lab], tuple(a[v] for v in att))
            else:
                x = val[lab][tuple(a[v] for v in att)]
            p = mulx(p, x)
            if p == 0:
                break
        tot = addx(tot, p) if mode == 'sum' else maxx(tot, p)
    return tot


def step(ir, val, w, mode, nts=None):
    """One application of the grammar's equations F to val (dict nt -> dict asst -> value)."""
    new = {}
    for nt in (nts if nts is not None else ir['nt']):
        shape = ext_shape(ir, nt)
        v = {ea: Fraction(0) for ea in all_assts(shape)}
        for rule in ir['rules']:
            if rule[0] != nt:
                continue
            for ea in v:
                x = rule_value(ir, rule, val, w, mode, ea)
                v[ea] = addx(v[ea], x) if mode == 'sum' else maxx(v[ea], x)
        new[nt] = v
    return new


def eval_nonrec(ir, w=None, mode='sum'):
    """Exact sum-product (mode 'sum') or max-product (mode 'max') of every nonterminal of a
    non-recursive IR.  Returns dict nt -> dict ext assignment -> Fraction | inf."""
    w = w if w is not None else ir['w']
    val = {}
    for nt in topo_nts(ir):
        val.update(step(ir, val, w, mode, [nt]))
    return val


def zero_val(ir):
    return {nt: {ea: Fraction(0) for ea in all_assts(ext_shape(ir, nt))} for nt in ir['nt']}


def kleene_exact(ir, w=None, mode='max', max_iter=None):
    """Kleene iteration from zero in exact arithmetic until a fixed point is reached.
    Returns (val, iterations) or (None, iterations) when no fixed point within max_iter
    (still improving => unbounded or infinite ascending chain => out of scope)."""
    w = w if w is not None else ir['w']
    val = zero_val(ir)
    n_entries = sum(len(v) for v in val.values())
    max_iter = max_iter or (n_entries + 2)
    for k in range(max_iter + 1):
        new = step(ir, val, w, mode)
        if new == val:
            return val, k
        val = new
    return None, max_iter


def bool_lfp(ir, w=None):
    """Boolean least fixed point: which entries have a derivation with nonzero weight."""
    w = w if w is not None else ir['w']
    wb = {k: _map(v, lambda x: Fraction(1) if (x == INF or x > 0) else Fraction(0)) for k, v in w.items()}
    val = zero_val(ir)
    while True:
        new = step(ir, val, wb, 'max')
        new = {nt: {ea: (Fraction(1) if x > 0 else Fraction(0)) for ea, x in v.items()} for nt, v in new.items()}
        if new == val:
            return val
        val = new


def _map(w, f):
    if isinstance(w, list):
        return [_map(x, f) for x in w]
    return f(w)


# ---------------------------------------------------------------------------------------------
# high-precision Kleene iteration for Real / Log least fixed points

def kleene_mp(ir, w=None, digits=50, max_iter=5000, eps_exp=-30):
    """Kleene iteration in mpmath.  Returns ('finite', val, rho_estimate) when the increment drops
    below 10**eps_exp within max_iter steps, ('divergent', None, None) if some entry exceeds 1e30
    or an infinite weight is reachable, ('undecided', None, None) otherwise."""
    import mpmath
    w = w if w is not None else ir['w']
    mp = mpmath.mp.clone() if hasattr(mpmath.mp, 'clone') else mpmath.mp
    mp.dps = digits
    mpf = mp.mpf

    def conv(x):
        if x == INF:
            return mp.inf
        return mpf(x.numerator) / mpf(x.denominator) if isinstance(x, Fraction) else mpf(x)
    wm = {k: _map(v, conv) for k, v in w.items()}
    nts = list(ir['nt'])
    val = {nt: {ea: mpf(0) for ea in all_assts(ext_shape(ir, nt))} for nt in nts}
    eps = mpf(10) ** eps_exp
    prev_inc = None
    ratio = None
    for k in range(max_iter):
        new = {}
        for nt in nts:
            v = {ea: mpf(0) for ea in val[nt]}
            for rule in ir['rules']:
                if rule[0] != nt:
                    continue
                for ea in v:
                    v[ea] += _rule_value_mp(ir, rule, val, wm, ea, mpf)
            new[nt] = v
        inc = mpf(0)
        big = False
        for nt in nts:
            for ea in new[nt]:
                x = new[nt][ea]
                if x != x:
                    return ('undecided', None, None)
                if x == mp.inf or x > mpf(10) ** 30:
                    big = True
                d = abs(x - val[nt][ea]) if x != mp.inf else mp.inf
                if d > inc:
                    inc = d
        if big:
            return ('divergent', None, None)
        val = new
        if prev_inc is not None and prev_inc > 0 and inc > 0:
            ratio = inc / prev_inc
        prev_inc = inc
        if inc < eps:
            return ('finite', val, float(ratio) if ratio is not None else 0.0)
    return ('undecided', None, None)


def _rule_value_mp(ir, rule, val, w, ea, mpf):
    lhs, labs, ext, edges = rule
    n = len(labs)
    free = [i for i in range(n) if i not in ext]
    tot = mpf(0)
    for ia in itertools.product(*[range(ir['nl'][labs[i]]) for i in free]):
        a = [None] * n
        for v, x in zip(ext, ea):
            a[v] = x
        for v, x in zip(free, ia):
            a[v] = x
        p = mpf(1)
        zero = False
        for lab, att in edges:
            if lab in ir['term']:
                x = get_entry(w[lab], tuple(a[v] for v in att))
            else:
                x = val[lab][tuple(a[v] for v in att)]
            if x == 0:
                zero = True
                break
            p = p * x
        if not zero:
            tot += p
    return tot


# ---------------------------------------------------------------------------------------------
# graph oracles

def scc_oracle(adj):
    """SCC partition by transitive closure; adj: dict v -> iterable of successors."""
    g = {v: set(adj[v]) for v in adj}
    r = reach(g)
    comps = {}
    for v in g:
        comp = frozenset([v] + [u for u in g if u in r[v] and v in r[u]])
        comps[v] = comp
    return set(comps.values()), r


def treewidth(adj):
    """Exact treewidth by DP over vertex subsets (elimination orderings): n <= ~10."""
    vs = sorted(adj, key=repr)
    n = len(vs)
    if n == 0:
        return -1   # width of the empty decomposition (one empty bag): -1; callers handle
    idx = {v: i for i, v in enumerate(vs)}
    nb = [0] * n
    for v in vs:
        for u in adj[v]:
            if u != v:
                nb[idx[v]] |= 1 << idx[u]
                nb[idx[u]] |= 1 << idx[v]

    def q(S, v):
        """number of vertices outside S+{v} reachable from v through S"""
        seen = 1 << v
        stack = [v]
        cnt = 0
        while stack:
            x = stack.pop()
            m = nb[x] & ~seen
            while m:
                b = m & -m
                y = b.bit_length() - 1
                seen |= b
                m ^= b
                if S >> y & 1:
                    stack.append(y)
                else:
                    cnt += 1
        return cnt
    full = (1 << n) - 1
    TW = {0: -1}
    for size in range(1, n + 1):
        for comb in itertools.combinations(range(n), size):
            S = 0
            for c in comb:
                S |= 1 << c
            best = n
            for v in comb:
                S2 = S & ~(1 << v)
                best = min(best, max(TW[S2], q(S2, v)))
            TW[S] = best
    return TW[full]


# ---------------------------------------------------------------------------------------------
# exact gradients: forward-mode with sparse gradient dictionaries over weight entries

class G:
    """value + sparse gradient (dict entry -> number). Entries: (terminal, index tuple)."""
    __slots__ = ('v', 'd')

    def __init__(self, v, d=None):
        self.v = v
        self.d = d or {}

    def __add__(self, o):
        d = dict(self.d)
        for k, x in o.d.items():
            d[k] = d.get(k, 0) + x
        return G(self.v + o.v, d)

    def __mul__(self, o):
        d = {}
        if o.v != 0:
            for k, x in self.d.items():
                d[k] = x * o.v
        if self.v != 0:
            for k, x in o.d.items():
                d[k] = d.get(k, 0) + x * self.v
        return G(self.v * o.v, d)


def grad_step(ir, val, wg, zero, one, nts=None):
    new = {}
    for nt in (nts if nts is not None else ir['nt']):
        shape = ext_shape(ir, nt)
        v = {ea: G(zero) for ea in all_assts(shape)}
        for rule in ir['rules']:
            if rule[0] != nt:
                continue
            lhs, labs, ext, edges = rule
            n = len(labs)
            free = [i for i in range(n) if i not in ext]
            for ea in v:
                for ia in itertools.product(*[range(ir['nl'][labs[i]]) for i in free]):
                    a = [None] * n
                    for vv, x in zip(ext, ea):
                        a[vv] = x
                    for vv, x in zip(free, ia):
                        a[vv] = x
                    p = G(one)
                    for lab, att in edges:
                        idx = tuple(a[i] for i in att)
                        x = get_entry(wg[lab], idx) if lab in ir['term'] else val[lab][idx]
                        p = p * x
                    v[ea] = v[ea] + p
        new[nt] = v
    return new


def weights_as_G(ir, w, conv=lambda x: x):
    from mc.ir import nested, weight_shape
    one = conv(Fraction(1))
    return {name: nested(weight_shape(ir, name), lambda idx, name=name: G(conv(get_entry(w[name], idx)), {(name, idx): one}))
            for name in ir['term']}


def grad_nonrec(ir, w):
    """Exact dZ/dw for every nonterminal entry and weight entry of a non-recursive IR (finite weights)."""
    wg = weights_as_G(ir, w)
    val = {}
    for nt in topo_nts(ir):
        val.update(grad_step(ir, val, wg, Fraction(0), Fraction(1), [nt]))
    return val


def grad_kleene_mp(ir, w, digits=40, max_iter=4000, eps_exp=-25):
    """Value and gradient of the least fixed point by forward-mode Kleene iteration in mpmath.
    Returns val (dict nt -> ea -> G with mpf entries) or None when not converged."""
    import mpmath
    mp = mpmath.mp
    mp.dps = digits
    mpf = mp.mpf

    def conv(x):
        return mpf(x.numerator) / mpf(x.denominator)
    wg = weights_as_G(ir, w, conv)
    val = {nt: {ea: G(mpf(0)) for ea in all_assts(ext_shape(ir, nt))} for nt in ir['nt']}
    eps = mpf(10) ** eps_exp
    for k in range(max_iter):
        new = grad_step(ir, val, wg, mpf(0), mpf(1))
        inc = mpf(0)
        for nt in new:
            for ea in new[nt]:
                a, b = new[nt][ea], val[nt][ea]
                inc = max(inc, abs(a.v - b.v))
                for kk in set(a.d) | set(b.d):
                    inc = max(inc, abs(a.d.get(kk, 0) - b.d.get(kk, 0)))
                if a.v > mpf(10) ** 20:
                    return None
        val = new
        if inc < eps:
            return val
    return None
