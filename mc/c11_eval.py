"""Evaluator run under different interpreter flags (python, python -O, python -OO) by the C11 check:
    python [-O|-OO] -m mc.c11_eval <in.pickle> <out.pickle>
in.pickle = list of (ir, configs) with configs = [(sem, method, j_precompute, dtype, want_grad)];
out.pickle = list of lists of results ('ok', start value as nested list, {terminal: grad nested list or None})
or ('exc', exception type name, site)."""
import sys, pickle, warnings


def evaluate(ir, cfg):
    import torch, fggs
    from mc import ir as IR
    from mc.core import exc_site
    sem, method, jp, dtype, want_grad = cfg
    try:
        g = IR.build_fgg(ir, sem, dtype, requires_grad=want_grad)
        S = IR.semiring(sem, dtype)
        tol = 1e-12 if dtype == 'float64' else 1e-5
        with warnings.catch_warnings():
            warnings.simplefilter('ignore')
            z = fggs.sum_product(g, method=method, semiring=S, j_precompute=jp, tol=tol, kmax=2000).to_dense()
        grads = None
        if want_grad:
            grads = {}
            if z.requires_grad:
                z.sum().backward()
            for name, (kind, leaf) in g._verif_leaves.items():
                grads[name] = None if leaf.grad is None else leaf.grad.tolist()
        return ('ok', z.detach().tolist(), grads)
    except Exception as e:
        return ('exc', type(e).__name__, exc_site(e, 3))


def main():
    import torch
    torch.set_num_threads(1)
    with open(sys.argv[1], 'rb') as f:
        work = pickle.load(f)
    out = []
    for ir, cfgs in work:
        out.append([evaluate(ir, c) for c in cfgs])
    with open(sys.argv[2], 'wb') as f:
        pickle.dump({'debug': __debug__, 'docstrings': evaluate.__doc__ is not None or True, 'results': out}, f)


if __name__ == '__main__':
    main()
