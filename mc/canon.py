"""Canonical forms of hypergraphs up to renaming of nodes and edges."""
import itertools


def graph_tuple(g):
    """fggs Graph -> (node label names, edges [(label sig, node index tuple)], ext index tuple)."""
    nodes = list(g.nodes())
    idx = {}
    for i, n in enumerate(nodes):
        idx[n.id] = i
    labs = tuple(n.label.name for n in nodes)
    edges = tuple(((e.label.name, bool(e.label.is_terminal), tuple(l.name for l in e.label.type)),
                   tuple(idx[v.id] for v in e.nodes)) for e in g.edges())
    ext = tuple(idx[v.id] for v in g.ext)
    return labs, edges, ext


def canon(labs, edges, ext):
    """Canonical key of a node-labelled hypergraph with ordered attachments and ordered ext.
    Colour refinement, then brute force over permutations inside colour classes."""
    n = len(labs)

    def rank(sigs):
        ranks = {s: r for r, s in enumerate(sorted(set(sigs)))}
        return [ranks[s] for s in sigs]
    col = rank([repr((labs[i], tuple(j for j, v in enumerate(ext) if v == i))) for i in range(n)])
    for _ in range(n):
        sig = []
        for i in range(n):
            inc = sorted((lab, tuple(col[v] for v in att), tuple(p for p, v in enumerate(att) if v == i))
                         for lab, att in edges if i in att)
            sig.append(repr((col[i], inc)))
        new = rank(sig)
        if len(set(new)) == len(set(col)):
            break
        col = new
    classes = {}
    for i, c in enumerate(col):
        classes.setdefault(c, []).append(i)
    order_classes = [classes[c] for c in sorted(classes)]
    best = None
    count = 1
    for cl in order_classes:
        for k in range(2, len(cl) + 1):
            count *= k
    if count > 50000:
        raise OverflowError('canonical form: %d candidate orders' % count)
    for perms in itertools.product(*[itertools.permutations(cl) for cl in order_classes]):
        order = [i for p in perms for i in p]
        pos = {v: k for k, v in enumerate(order)}
        key = (tuple(labs[i] for i in order),
               tuple(sorted((lab, tuple(pos[v] for v in att)) for lab, att in edges)),
               tuple(pos[v] for v in ext))
        if best is None or key < best:
            best = key
    return best


def canon_graph(g):
    return canon(*graph_tuple(g))
