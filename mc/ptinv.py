"""Representation invariant of PatternedTensor, checked on every construction inside the library.

Installed by wrapping PatternedTensor.__post_init__ from the harness (no source hook needed: the
dataclass-generated __init__ looks the method up dynamically).  Invariant: physical.size() equals the
sizes of paxes; paxes pairwise distinct, none of size 1; the free PhysicalAxes of vaxes are exactly
paxes; the affine map physical index -> virtual index is injective and stays inside the virtual shape
("every virtual element is backed by at most one physical element").
"""
import itertools

FAILURES = []
_installed = False
COUNT = [0]


class RepInvariantError(AssertionError):
    pass


def check(t):
    import torch
    from fggs.indices import PhysicalAxis
    paxes = tuple(t.paxes)
    if tuple(t.physical.size()) != tuple(k._numel for k in paxes):
        return 'physical size %r != paxes sizes %r' % (tuple(t.physical.size()), tuple(k._numel for k in paxes))
    if len(set(map(id, paxes))) != len(paxes):
        return 'paxes not distinct'
    if any(k._numel == 1 for k in paxes):
        return 'physical axis of size 1'
    fv = []
    for e in t.vaxes:
        fv.extend(e.fv({}))
    if set(map(id, fv)) != set(map(id, paxes)):
        return 'free axes of vaxes differ from paxes'
    n = 1
    for k in paxes:
        n *= k._numel
    if n == 0 or n > 4096:
        return None
    # affine map: virtual flat index of every physical index
    vshape = [e.numel() for e in t.vaxes]
    flat = torch.zeros([k._numel for k in paxes], dtype=torch.long)
    mult = 1
    for e, vs in zip(reversed(t.vaxes), reversed(vshape)):
        o, s = e.stride({})
        pos = torch.full_like(flat, o)
        for k, a in s.items():
            i = next(j for j, kk in enumerate(paxes) if kk is k)
            shape = [1] * len(paxes)
            shape[i] = k._numel
            pos = pos + a * torch.arange(k._numel).reshape(shape)
        if bool((pos < 0).any()) or bool((pos >= vs).any()):
            return 'index map leaves the virtual shape'
        flat = flat + pos * mult
        mult *= vs
    if flat.unique().numel() != n:
        return 'index map not injective: a virtual element is backed by several physical elements'
    return None


def install():
    global _installed
    if _installed:
        return
    from fggs.indices import PatternedTensor
    orig = PatternedTensor.__post_init__

    def post_init(self):
        orig(self)
        COUNT[0] += 1
        msg = check(self)
        if msg:
            FAILURES.append(msg)
            raise RepInvariantError('PatternedTensor representation invariant: ' + msg)
    PatternedTensor.__post_init__ = post_init
    _installed = True
