"""Generates data/shapes_<N>_<E>_<A>_<X>.json: canonical representatives (up to node renaming) of all
right-hand-side shapes with <= N nodes, <= E edges of arity <= A, ext sequences of <= X distinct nodes,
one node label.  Deterministic; run: /venv/bin/python -m mc.gen_shapes N E A X"""
import sys, json, os, time
from mc import ir as IR

def main():
    N, E, A, X = map(int, sys.argv[1:5])
    t = time.time()
    out = IR.shapes(N, E, A, ('T',), max_ext=X)
    path = os.path.join(os.path.dirname(os.path.dirname(os.path.abspath(__file__))), 'data', 'shapes_%d_%d_%d_%d.json' % (N, E, A, X))
    with open(path, 'w') as f:
        json.dump([[list(l), [list(e) for e in es], list(x)] for l, es, x in out], f, separators=(',', ':'))
    print(path, len(out), 'shapes', round(time.time() - t, 1), 's')

if __name__ == '__main__':
    main()
