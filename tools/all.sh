#!/bin/bash
# tools/all.sh <tier> [seed] [ids...] : run checks one after another, print one summary line each (used for silence sweeps)
tier=${1:-quick}; seed=${2:-0}; shift; shift
ids=${@:-C01 C02 C03 C04 C05 C06 C07 C08 C09 C10 C11 C12 C13 C14 C15 C16 C17 C18 C19 C20}
cd "$(dirname "$0")/.."
for c in $ids; do
  out=$(VERIF_SEED=$seed ./check $c --tier $tier 2>&1); rc=$?
  echo "rc=$rc $(echo "$out" | grep -c '^VIOLATION') violations, $(echo "$out" | grep -c '^KNOWN-FINDING') known :: $(echo "$out" | tail -1 | cut -c1-260)"
  echo "$out" | grep -A1 '^VIOLATION' | cut -c1-400 | head -6
done
