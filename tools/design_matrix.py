#!/usr/bin/env python3
"""Regenerates section 8 of DESIGN.md from seeded/RESULTS.json and the seeded meta.json files."""
import json, os, re
V = os.path.dirname(os.path.dirname(os.path.abspath(__file__)))
res = json.load(open(os.path.join(V, 'seeded', 'RESULTS.json')))
rows = []
for name in sorted(res):
    meta = json.load(open(os.path.join(V, 'seeded', name, 'meta.json')))
    r = res[name]
    desc = re.sub(r'\s+', ' ', meta.get('description', ''))[:150].replace('|', '/')
    needs = re.sub(r'\s+', ' ', str(meta.get('needs_to_manifest', '')))[:130].replace('|', '/')
    det = ', '.join(r['detected_by']) if r['detected_by'] else '**none**'
    run = ', '.join(r['checks_run'])
    rows.append('| %s | %s | %s | %s | %s |' % (name, desc, needs, run, det))
sec = ['## 8. Seeded property-breaking changes and which checks catch them', '',
       'Each change was produced by a fresh sub-agent that saw only the property text and a scratch worktree (nothing from',
       '/verif), confirmed independently (`tools/confirm_mutant.sh`: demo passes on the clean tree, fails with the patch,',
       'all 110 tests pass with the patch) and then run against the quick tier of the listed checks in a scratch worktree',
       '(`tools/run_mutant.sh`, never applied to /repo). Machine-readable results: `seeded/RESULTS.json`; per change:',
       '`seeded/<id>/{patch.diff, demo.py, meta.json}`.', '',
       '| seeded change | what it does | needs, to manifest | checks run | detected by |', '|---|---|---|---|---|'] + rows
n_det = sum(1 for r in res.values() if r['detected_by'])
sec += ['', '%d of %d seeded changes are reported by the quick tier of the check of their own property (the remainder, if any, are discussed below).' % (n_det, len(res)), '']
notes = os.path.join(V, 'seeded', 'NOTES.md')
if os.path.exists(notes):
    sec.append(open(notes).read())
p = os.path.join(V, 'DESIGN.md')
s = open(p).read()
i = s.index('## 8. Seeded property-breaking changes')
j = s.index('## 9. False alarms')
open(p, 'w').write(s[:i] + '\n'.join(sec) + '\n' + s[j:])
print('section 8:', len(rows), 'rows')
