#!/bin/bash
# tools/harvest.sh <pid> : confirm every mutant in /tmp/wt/<pid>/mutants and copy the confirmed ones to seeded/
pid=$1; root=${2:-/tmp/wt}; wt=$root/$pid
for d in $wt/mutants/*/; do
  name=$(basename $d)
  if /verif/tools/confirm_mutant.sh $wt $name >/dev/null 2>&1; then
    dest=/verif/seeded/$pid-$name; mkdir -p $dest
    cp $d/patch.diff $d/demo.py $d/meta.json $d/confirm.log $dest/ 2>/dev/null
    echo "harvested $pid-$name"
  else
    echo "NOT confirmed $pid-$name: $(tail -1 $d/confirm.log)"
  fi
done
