#!/bin/bash
# tools/confirm_mutant.sh <worktree> <mutant-name> : independent confirmation of a seeded change.
# demo passes on clean tree, fails with patch, full test-suite passes with patch. Leaves the worktree clean.
wt=$1; name=$2; d=$wt/mutants/$name
cd "$wt" || exit 2
git checkout -q -- fggs bin 2>/dev/null
out=$d/confirm.log; : > $out
/venv/bin/python $d/demo.py >>$out 2>&1; clean_rc=$?
git apply $d/patch.diff || { echo "$name: patch does not apply" | tee -a $out; exit 2; }
/venv/bin/python $d/demo.py >>$out 2>&1; mut_rc=$?
/venv/bin/python -m pytest -q -p no:cacheprovider --timeout=900 2>&1 | tail -1 >>$out; 
tests=$(tail -1 $out)
git checkout -q -- fggs bin
ok=no; [[ $clean_rc == 0 && $mut_rc != 0 && "$tests" == *"110 passed"* && "$tests" != *failed* ]] && ok=yes
echo "$name clean_rc=$clean_rc mutant_rc=$mut_rc tests='$tests' confirmed=$ok" | tee -a $out
[[ $ok == yes ]]
