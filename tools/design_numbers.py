#!/usr/bin/env python3
"""tools/design_numbers.py: refresh the 'quick: evaluations / wall' column of DESIGN.md section 3A from evidence/*.json
(the evidence files are written by the checks; run after an idle seed-0 quick run of every check)."""
import json, os, re
V = os.path.dirname(os.path.dirname(os.path.abspath(__file__)))
p = os.path.join(V, 'DESIGN.md')
s = open(p).read().split('\n')


def k(n):
    return '%.2f M' % (n / 1e6) if n >= 1e6 else ('%.1f k' % (n / 1e3) if n >= 1e4 else str(n))


for i, line in enumerate(s):
    m = re.match(r'\| (C\d\d) \| (exploration|model_checking) \|', line)
    if not m:
        continue
    ev = os.path.join(V, 'evidence', m.group(1) + '.json')
    if not os.path.exists(ev):
        continue
    d = json.load(open(ev))
    if d.get('tier') != 'quick':
        continue
    c = d['coverage']
    cell = '%s / %.0f s' % (k(c['evaluations']), d.get('wall_seconds', d.get('wall_s', 0)))
    if m.group(2) == 'model_checking':
        cell += '; %s states, %s transitions' % (k(d.get('states', c.get('states', 0))), k(d.get('transitions', c.get('transitions', 0))))
    exc = sum(c.get('excluded_not_judged', {}).values())
    if exc:
        cell += ' (%s excluded)' % k(exc)
    cols = line.split(' | ')
    cols[4] = cell
    s[i] = ' | '.join(cols)
open(p, 'w').write('\n'.join(s))
