#!/bin/bash
# tools/run_mutant.sh <patch.diff> <pid> [<pid>...] : apply a seeded change to a scratch worktree of /repo's HEAD,
# run the checks against it (FGGS_REPO), remove the worktree.  Never touches /repo's working tree.
patch=$(readlink -f "$1"); shift
name=$(basename $(dirname $patch))
wt=/tmp/mw/$name.$$
mkdir -p /tmp/mw
git -C /repo worktree add --detach -q $wt HEAD || exit 2
trap 'git -C /repo worktree remove --force '$wt EXIT
( cd $wt && (git apply "$patch" || git apply -3 "$patch") ) || { echo "patch does not apply: $name"; exit 2; }
cd /verif
for pid in "$@"; do
  out=/tmp/mw/$name.$pid.out
  FGGS_REPO=$wt ./check $pid --tier ${TIER:-quick} > $out 2>&1; rc=$?
  echo "== $name $pid rc=$rc violation_lines=$(grep -c '^VIOLATION' $out)"
  grep -A1 '^VIOLATION' $out | head -${LINES_SHOWN:-4} | cut -c1-400
  tail -1 $out | cut -c1-300
done
