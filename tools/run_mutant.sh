#!/bin/bash
# tools/run_mutant.sh <patch.diff> <pid> [<pid>...] : apply a seeded change to /repo, run the quick checks, undo.
patch=$1; shift
cd /repo && git diff --quiet || { echo "/repo not clean"; exit 2; }
git -C /repo apply "$patch" || { echo "patch does not apply"; exit 2; }
trap 'git -C /repo checkout -- . ' EXIT
cd /verif
for pid in "$@"; do
  ./check $pid --tier ${TIER:-quick} > /tmp/mut_$pid.out 2>&1; rc=$?
  echo "== $pid rc=$rc $(grep -c '^VIOLATION' /tmp/mut_$pid.out) violation lines"
  grep -A1 '^VIOLATION' /tmp/mut_$pid.out | head -${LINES_SHOWN:-6}
  tail -1 /tmp/mut_$pid.out
done
