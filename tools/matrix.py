#!/usr/bin/env python3
"""tools/matrix.py [name-prefix ...]: run every seeded change against the check of its own property (quick tier,
scratch worktree via tools/run_mutant.sh), record the outcome in seeded/<id>/meta.json and seeded/RESULTS.json."""
import json, os, subprocess, sys, glob, re, time
V = os.path.dirname(os.path.dirname(os.path.abspath(__file__)))
EXTRA = {'C02-viterbi-star-unit-cycle': ['C02', 'C08', 'C09'], 'C09-viterbi-star-unit-cycle': ['C09', 'C08', 'C02'], 'C12-viterbi-node-order-pointers': ['C12', 'C04'],
         'C12-jlog-unfiltered-rules': ['C12', 'C03'], 'C11-copy-alias-on-repattern': ['C11', 'C02', 'C18'], 'C02-copy-alias-on-pattern-growth': ['C02', 'C18'],
         'C08-bool-and-default-or': ['C08', 'C06'], 'C13-equal-overlap-not-counted': ['C13', 'C06'],
         'C04-viterbi-single-pointer-raw-argmax': ['C04', 'C07'], 'C12-unsqueeze-order-by-variable': ['C12', 'C07'], 'C12-early-exit-rhs-count': ['C12', 'C02'],
         'C01-scc-stale-onstack': ['C01', 'C19'], 'C05-decomposition-forest-per-component': ['C05', 'C10'], 'C11-jlog-stale-rule-list': ['C11', 'C03'],
         'C11-linear-jacobian-overwrite': ['C11', 'C02'], 'C08-broadcast-new-axis-order': ['C08', 'C06'], 'C08-sumaxis-antiunify-after': ['C08', 'C06'],
         'C03-transpose-before-flatten': ['C03', 'C09'], 'C10-quickbb-sep-filter-before-reduction': ['C10'], 'C04-derive-skip-external-nodes': ['C04', 'C15'],
         'C04-backptr-output-axis-movedim': ['C04', 'C07'], 'C02-stale-lu-pivots': ['C02', 'C09'], 'C15-remove-edge-prunes-orphans': ['C15', 'C16'],
         'C15-stale-graph-type-cache': ['C15', 'C16'], 'C14-iter-unit-axis-drops-default': ['C14', 'C06'], 'C12-viterbi-skip-dead-rule-pointer': ['C12', 'C04'],
         'C12-add-rule-dedup-by-value': ['C12', 'C16'], 'C11-unsorted-unsqueeze-index': ['C11', 'C02', 'C07'], 'C11-stack-unify-in-assert': ['C11', 'C06'],
         'C09-stale-diagonal-set': ['C09', 'C02'], 'C03-multi-mv-transpose-before-flatten': ['C03', 'C09'], 'C01-viterbi-zeros-not-overridden': ['C01', 'C08'],
         'C13-allclose-freshen-discarded': ['C13', 'C06'], 'C13-equal-numel-shape-guard': ['C13', 'C06'], 'C19-nonterminal-graph-memo-by-counts': ['C19', 'C18'],
         'C16-add-factor-early-label': ['C16', 'C20'], 'C08-nan-default-not-annihilated': ['C08', 'C06'],
         'C02-scc-cross-edge-lowlink': ['C02', 'C19'], 'C11-logstar-branch-swap': ['C11', 'C08'], 'C12-viterbi-trivial-flag-leak': ['C12', 'C04'],
         'C14-add-rule-skips-equal-rule': ['C14', 'C12'], 'C06-freshen-shared-rename': ['C06', 'C07'], 'C01-unsqueeze-order-by-variable': ['C01', 'C07'],
         'C01-einsum-freshen-tracks-vaxes': ['C01', 'C07'], 'C03-solve-skips-nonpositive-rows': ['C03', 'C09'], 'C19-sum-products-skips-ruleless-nonterminals': ['C19', 'C01'],
         'C20-add-factor-bind-before-domain-check': ['C20', 'C16'], 'C16-factorgraph-copy-via-from-graph': ['C16', 'C18'],
         'C03-cli-expect-stale-weights-variable': ['C03', 'C11'], 'C11-fixedpoint-stale-final-iterate': ['C11', 'C03'], 'C11-jlog-softmax-allzero-slice': ['C11', 'C03'],
         'C01-default-to-relabels-shared-axis': ['C01', 'C07'], 'C01-einsum-operand-index-map': ['C01', 'C07'], 'C08-same-paxes-fast-path': ['C08', 'C06'],
         'C12-new-rule-snapshots-rhs': ['C12', 'C16'], 'C12-viterbi-shared-rhs-pointer-list': ['C12', 'C04'], 'C18-copy-adopts-contiguous-source': ['C18', 'C06'],
         'C10-method-name-identity-dispatch': ['C10', 'C05'], 'C13-multi-tol0-absent-numeric-zero': ['C13', 'C02'],
         'C01-real-einsum-nan-fixup-guard': ['C01', 'C07'], 'C01-log-from-int-single-precision': ['C01', 'C08'], 'C09-default-to-dense-test-counts-axes': ['C09', 'C07'],
         'C12-fgg-copy-shares-rule-lists': ['C12', 'C16'], 'C12-scc-cross-edge-lowlink': ['C12', 'C19'], 'C03-jprecompute-skips-outside-nonterminals': ['C03', 'C11'],
         'C03-jlog-skip-outside-nonterminals': ['C03', 'C11'], 'C11-log-from-int-default-precision': ['C11', 'C08'], 'C06-logical-and-wrong-identity': ['C06', 'C08'],
         'C12-disconnected-domain-size-cached': ['C12', 'C01'], 'C16-fgg-copy-shares-factors': ['C16', 'C18'], 'C02-allclose-default-zero': ['C02', 'C13'],
         'C07-zero-check-output-axes-only': ['C07', 'C01'],
         'C11-solve-skip-zero-row-not-semiring-zero': ['C11', 'C09'], 'C11-jacobian-memo-ignores-attachment-order': ['C11', 'C03']}
res_path = os.path.join(V, 'seeded', 'RESULTS.json')
results = json.load(open(res_path)) if os.path.exists(res_path) else {}
names = sorted(os.path.basename(d) for d in glob.glob(os.path.join(V, 'seeded', '*')) if os.path.isdir(d))
sel = sys.argv[1:]
for name in names:
    if sel and not any(name.startswith(s) for s in sel):
        continue
    if not sel and name in results:
        continue
    pid = name.split('-')[0]
    pids = EXTRA.get(name, [pid])
    t0 = time.time()
    p = subprocess.run([os.path.join(V, 'tools', 'run_mutant.sh'), os.path.join(V, 'seeded', name, 'patch.diff')] + pids, capture_output=True, text=True)
    out = p.stdout
    det = {}
    for m in re.finditer(r'== \S+ (C\d+) rc=(\d+) violation_lines=(\d+)', out):
        det[m.group(1)] = {'exit': int(m.group(2)), 'violation_lines': int(m.group(3))}
    first = re.search(r'kind=(\S+) site=(\S+) trigger=(\S+)', out)
    results[name] = {'property': pid, 'checks_run': pids, 'detected_by': sorted(k for k, v in det.items() if v['exit'] == 1 and v['violation_lines'] > 0),
                     'detail': det, 'first_violation': first.group(0) if first else None, 'wall_s': round(time.time() - t0, 1)}
    mp = os.path.join(V, 'seeded', name, 'meta.json')
    meta = json.load(open(mp))
    conf = open(os.path.join(V, 'seeded', name, 'confirm.log')).read().strip().splitlines()[-1] if os.path.exists(os.path.join(V, 'seeded', name, 'confirm.log')) else ''
    meta['breaks_property'] = pid
    meta['what_i_ran'] = {'confirmation': 'tools/confirm_mutant.sh in a scratch worktree: demo passes on the clean tree, fails with the patch, full test-suite (110 tests) passes with the patch', 'confirmation_result': conf,
                          'detection': 'tools/run_mutant.sh seeded/%s/patch.diff %s  (quick tier against a scratch worktree with the patch applied)' % (name, ' '.join(pids)), 'detection_result': results[name]}
    json.dump(meta, open(mp, 'w'), indent=1)
    import fcntl
    with open(res_path + '.lock', 'w') as lk:   # several matrix.py processes may run side by side
        fcntl.flock(lk, fcntl.LOCK_EX)
        cur = json.load(open(res_path)); cur[name] = results[name]; results = cur
        json.dump(results, open(res_path, 'w'), indent=1, sort_keys=True)
    print(name, results[name]['detected_by'], results[name]['wall_s'], flush=True)
