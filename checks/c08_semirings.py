"""C08 — the four semirings obey the semiring laws on their whole value domain."""
import itertools, math, warnings
from fractions import Fraction
from mc.core import Res
from mc import patterns as P

PID = 'C08'
LEVEL = 'exploration'
RULE = ('(1) whole-carrier sweeps: every float16 and every bfloat16 bit pattern (65536 each; thorough: every float32 bit pattern, 2^32, '
        'and all ordered float16 pairs) through star, add(x,0), mul(x,1), mul(x,0), mul(x,inf), sub(x,x)+x, '
        'add_/sum vs add, commutativity, in Real / Log / Viterbi, against closed forms evaluated in float64; (2) '
        'associativity and distributivity on all triples, and sub(x,y)+y=x on all pairs y<=x, over a 15-value boundary '
        'alphabet per dtype (0, subnormal, smallest normal, 1/4, 1/2, 1-eps, 1, 1+eps, 2, 3, 2^k, max, inf) for float32 and '
        'float64, against exact rational / 60-digit arithmetic (within 4 ulp; triples whose exact intermediates leave '
        'the normal range are skipped and counted); (3) Bool: all values and triples; (4) from_int on 0..8 is a '
        'homomorphism; (5) add/mul/sub give the same dense result on every same-typed pair of patterned operands as on '
        'dense tensors. Non-trivial = judged case whose operands are not all identities.')
ASSUMPTIONS = ['float64 carrier cannot be swept (2^64): boundary alphabet only', 'IEEE overflow/underflow of exact '
               'intermediates is not a semiring violation: such triples are skipped']
CHUNK = 1
CASE_TIMEOUT_S = 600.0      # a case may be a sweep over 2^22 values or 512 x 63k pairs
inf = math.inf
SWEEP32_BITS = 32      # thorough tier: every float32 bit pattern (about 25 minutes on 16 idle cores); lower it to sweep only the patterns whose low bits are zero


def bounds(tier):
    return {'unary_sweeps': ['float16', 'bfloat16'] + (['float32 (2^%d bit patterns)' % SWEEP32_BITS] if tier == 'thorough' else []),
            'pair_sweeps': ['float16 x float16'] if tier == 'thorough' else [], 'boundary_alphabet_dtypes': ['float32', 'float64'],
            'pattern_catalogue': 'TYPES_SMALL, <=2 dims'}


def gen_cases(tier, seed):
    for sem in ('real', 'log', 'viterbi'):
        for dt in ('float16', 'bfloat16'):
            yield ('sweep16', sem, dt)
        if tier == 'thorough':
            for blk in range(1 << (SWEEP32_BITS - 20)):
                yield ('sweep32', sem, blk)
            for blk in range(0, 65536, 512):
                yield ('pairs16', sem, blk)
        for dt in ('float32', 'float64'):
            for i in range(15):
                yield ('triples', sem, dt, i)
    yield ('bool',)
    yield ('from_int',)
    cat = P.catalogue(2, 2, 12, P.TYPES_SMALL)
    for i in range(len(cat)):
        yield ('repr', i)
    for n in (3, 4):
        for dims in (1, 2):
            yield ('reprK', n, dims)


def describe(case):
    return {'part': case[0], 'params': list(case[1:])}


def dtype_of(name):
    import torch
    return {'float16': torch.float16, 'bfloat16': torch.bfloat16, 'float32': torch.float32, 'float64': torch.float64}[name]


def sem_of(sem, dt):
    from fggs.semirings import RealSemiring, LogSemiring, ViterbiSemiring
    return {'real': RealSemiring, 'log': LogSemiring, 'viterbi': ViterbiSemiring}[sem](dtype=dtype_of(dt))


def carrier16(sem, dt):
    """every value of a 16-bit float type that belongs to the semiring's carrier"""
    import torch
    bits = torch.arange(-32768, 32768, dtype=torch.int32).to(torch.int16)
    x = bits.view(dtype_of(dt))
    x = x[~torch.isnan(x)]
    if sem == 'real':
        x = x[(x >= 0) & ~torch.signbit(x)]
    return x


def ulp_ok(got, want64, dt, ulps=2.0):
    """got (dtype dt) within `ulps` ulp of the float64 value want64 (after rounding want64 to dt), inf/zero exact;
    absolute clause of one smallest normal where the exact value is subnormal."""
    import torch
    fi = torch.finfo(dtype_of(dt))
    g = got.to(torch.float64)
    w = want64
    wr = w.to(dtype_of(dt)).to(torch.float64)          # correctly rounded expectation
    same_inf = torch.isinf(wr) & (g == wr)
    tol = ulps * fi.eps * wr.abs() + fi.tiny
    close = (g - w).abs() <= tol
    # overflow boundary: exact value rounds to inf or to max
    return same_inf | (close & ~torch.isinf(g)) | (torch.isinf(wr) & torch.isinf(g) & (g == wr))


def unary_laws(S, sem, dt, x, r, case):
    import torch
    zero, one = S.from_int(0), S.from_int(1)
    infv = torch.tensor(inf, dtype=x.dtype)
    x64 = x.to(torch.float64)
    n = x.numel()

    def report(law, mask, detail):
        if bool(mask.any()):
            i = int(mask.nonzero()[0])
            r.bad('law-violated', 'semirings.' + type(S).__name__, law, '%s %s: %s fails at x=%r (%d of %d values): %s' % (sem, dt, law, float(x[i]), int(mask.sum()), n, detail(i)), case, (case, law))
            return True
        r.ok((case, law), outcome=law, nontrivial=True)
        r.n += n - 1
        return False
    # star against the closed form
    st = S.star(x)
    if sem == 'real':
        want = torch.where(x64 < 1, 1 / (1 - x64), torch.full_like(x64, inf))
    elif sem == 'log':
        want = torch.where(x64 < -1, -torch.log1p(-torch.exp(x64)), -torch.log(-torch.expm1(x64)))   # float64, numerically careful
        want = torch.where(x64 < 0, want, torch.full_like(x64, inf))
        want = torch.where(x64 == -inf, torch.zeros_like(x64), want)
    else:
        want = torch.where(x64 > 0, torch.full_like(x64, inf), torch.zeros_like(x64))
    ok = ulp_ok(st, want, dt, 4.0 if dt in ('float16', 'bfloat16') else 2.0) if sem != 'viterbi' else (st.to(torch.float64) == want)
    # star(x) must be infinite exactly where the series diverges
    div = (x64 >= 1) if sem == 'real' else ((x64 >= 0) if sem == 'log' else (x64 > 0))
    ok = ok & (torch.isinf(st) & (st > 0) == div | (torch.isinf(want) & ~div))
    report('star', ~ok, lambda i: 'star=%r, least solution of y=1+x*y is %r' % (float(st[i]), float(want[i])))
    # identities and annihilation (bit-exact)
    a0 = S.add(x, zero.expand(x.shape))
    report('add-identity', ~((a0 == x) | ((x == 0) & (a0 == 0))), lambda i: 'x+0=%r' % float(a0[i]))
    m1 = S.mul(x, one.expand(x.shape))
    report('mul-identity', ~((m1 == x) | ((x == 0) & (m1 == 0))), lambda i: 'x*1=%r' % float(m1[i]))
    m0 = S.mul(x, zero.expand(x.shape))
    report('mul-zero', ~(m0 == zero), lambda i: 'x*0=%r' % float(m0[i]))
    m0b = S.mul(zero.expand(x.shape), x)
    report('zero-mul', ~(m0b == zero), lambda i: '0*x=%r' % float(m0b[i]))
    mi = S.mul(x, infv.expand(x.shape))
    wanti = torch.where(x == zero, zero.expand(x.shape), infv.expand(x.shape))
    report('mul-inf', ~(mi == wanti), lambda i: 'x*inf=%r, expected %r' % (float(mi[i]), float(wanti[i])))
    # sub(x,x)+x = x
    sx = S.add(S.sub(x, x), x)
    report('sub-self', ~((sx == x) | (torch.isinf(x) & (sx == x))), lambda i: 'sub(x,x)+x=%r' % float(sx[i]))
    # add_ and sum agree with add (against a shifted copy of the carrier)
    y = torch.roll(x, 7)
    ab = S.add(x, y)
    c = x.clone()
    S.add_(c, y)
    report('add_-vs-add', ~((c == ab) | (torch.isnan(c) & torch.isnan(ab))), lambda i: 'add_=%r add=%r' % (float(c[i]), float(ab[i])))
    if sem != 'log' or dt not in ('float16', 'bfloat16'):
        sm = S.sum(torch.stack([x, y]), dim=0)
        # Log / Viterbi values are logarithms: logsumexp and logaddexp round relative to the largest magnitude involved
        mag = torch.maximum(torch.maximum(x.abs(), y.abs()), ab.abs()).to(torch.float64)
        mag = torch.where(torch.isinf(mag), torch.zeros_like(mag), mag)
        loose = (sm.to(torch.float64) - ab.to(torch.float64)).abs() <= 4 * torch.finfo(dtype_of(dt)).eps * mag if sem != 'real' else torch.zeros_like(sm, dtype=torch.bool)
        report('sum-vs-add', ~ulp_ok(sm, ab.to(torch.float64), dt, 2.0) & ~(sm == ab) & ~loose, lambda i: 'sum=%r add=%r' % (float(sm[i]), float(ab[i])))
    ba = S.add(y, x)
    report('add-commutative', ~((ab == ba) | (torch.isnan(ab) & torch.isnan(ba))), lambda i: 'x+y=%r y+x=%r' % (float(ab[i]), float(ba[i])))
    mab, mba = S.mul(x, y), S.mul(y, x)
    report('mul-commutative', ~((mab == mba) | (torch.isnan(mab) & torch.isnan(mba))), lambda i: 'x*y=%r y*x=%r' % (float(mab[i]), float(mba[i])))
    report('no-nan', torch.isnan(ab) | torch.isnan(mab) | torch.isnan(st) | torch.isnan(m0) | torch.isnan(mi), lambda i: 'NaN produced')


def alphabet(sem, dt):
    import torch
    fi = torch.finfo(dtype_of(dt))
    sub = fi.tiny * fi.eps          # smallest subnormal
    real = [0.0, sub, fi.tiny, 0.25, 0.5, 1 - fi.eps / 2, 1.0, 1 + fi.eps, 2.0, 3.0, 2.0 ** 20, 2.0 ** 52 if dt == 'float64' else 2.0 ** 23, fi.max / 4, fi.max, inf]
    if sem == 'real':
        return real
    logs = [-inf, -fi.max, -2.0 ** 20, -3.0, -1.0, -fi.eps, -fi.tiny, 0.0, fi.tiny, fi.eps, 0.5, 1.0, 3.0, 2.0 ** 20, inf]
    return logs


def exact_ops(sem):
    """exact (add, mul) on Fractions / mpmath numbers with inf handled"""
    if sem in ('real',):
        def add(a, b):
            return inf if inf in (a, b) else a + b

        def mul(a, b):
            if a == 0 or b == 0:
                return Fraction(0)
            return inf if inf in (a, b) else a * b
        return add, mul
    if sem == 'viterbi':
        def add(a, b):
            return max(a, b)

        def mul(a, b):
            if a == -inf or b == -inf:
                return -inf
            return inf if inf in (a, b) else a + b
        return add, mul
    import mpmath
    mpmath.mp.dps = 60

    def add(a, b):
        if a == -inf:
            return b
        if b == -inf:
            return a
        if inf in (a, b):
            return inf
        m = max(a, b)
        return m + mpmath.log1p(mpmath.exp(min(a, b) - m))

    def mul(a, b):
        if a == -inf or b == -inf:
            return -inf
        return inf if inf in (a, b) else a + b
    return add, mul


def part_triples(sem, dt, i, r, case):
    import torch, mpmath
    S = sem_of(sem, dt)
    T = dtype_of(dt)
    fi = torch.finfo(T)
    A = alphabet(sem, dt)
    vals = [torch.tensor(v, dtype=T) for v in A]
    A = [float(v) for v in vals]          # the representable values actually used
    add, mul = exact_ops(sem)

    def ex(v):
        if v in (inf, -inf):
            return v
        if sem == 'log':
            return mpmath.mpf(v)
        return Fraction(v)
    E = [ex(v) for v in A]

    def in_range(e):
        """exact value representable without overflow/underflow trouble"""
        if e in (inf, -inf) or e == 0:
            return True
        m = abs(float(e)) if not isinstance(e, Fraction) else abs(e)
        return fi.tiny <= m <= fi.max

    def close(t, e, M=0.0):
        """Real: relative (4 ulp of the exact value).  Log/Viterbi: values are logarithms and mul is a float
        addition, so rounding errors are relative to the largest magnitude M involved (cancellation)."""
        g = float(t)
        if e in (inf, -inf):
            return g == e
        ef = float(e)
        if g in (inf, -inf):
            return False
        if sem == 'real':
            return abs(g - ef) <= 4 * fi.eps * abs(ef)
        return abs(g - ef) <= 8 * fi.eps * max(M, abs(ef)) + fi.tiny
    x, ex_ = vals[i], E[i]
    for j, k in itertools.product(range(len(A)), repeat=2):
        y, z, ey, ez = vals[j], vals[k], E[j], E[k]
        key = (case, j, k)
        exact_inter = [add(ex_, ey), add(ey, ez), mul(ex_, ey), mul(ey, ez), mul(ex_, ez), add(add(ex_, ey), ez), mul(mul(ex_, ey), ez),
                       mul(ex_, add(ey, ez)), add(mul(ex_, ey), mul(ex_, ez))]
        if not all(in_range(e) for e in exact_inter):
            r.excl['triple with exact intermediate outside the normal range of %s' % dt] += 1
            continue
        checks = [
            ('add-associative', S.add(S.add(x, y), z), S.add(x, S.add(y, z)), exact_inter[5]),
            ('mul-associative', S.mul(S.mul(x, y), z), S.mul(x, S.mul(y, z)), exact_inter[6]),
            ('distributive', S.mul(x, S.add(y, z)), S.add(S.mul(x, y), S.mul(x, z)), exact_inter[7]),
            ('sum-vs-add', S.sum(torch.stack([x, y, z]), dim=0), S.add(S.add(x, y), z), exact_inter[5]),
            ('sum-vs-add (2-d, dim=1)', S.sum(torch.stack([torch.stack([x, y, z]), torch.stack([z, y, x])]), dim=1)[0], S.sum(torch.stack([torch.stack([x, y, z]), torch.stack([z, y, x])]), dim=1)[1], exact_inter[5]),
        ]
        bad = False
        M = max([abs(float(v)) for v in (A[i], A[j], A[k]) if abs(v) != inf] + [abs(float(e)) for e in exact_inter if e not in (inf, -inf)] + [0.0])
        for law, lhs, rhs, e in checks:
            if not (close(lhs, e, M) and close(rhs, e, M)):
                r.bad('law-violated', 'semirings.' + type(S).__name__, law, '%s %s: %s fails at (%r, %r, %r): lhs=%r rhs=%r exact=%r' % (sem, dt, law, A[i], A[j], A[k], float(lhs), float(rhs), float(e) if e not in (inf, -inf) else e), case, key)
                bad = True
                break
        if bad:
            continue
        # sub(x,y)+y = x for y <= x  (pairs: use k == 0 only)
        if k == 0 and A[j] <= A[i]:
            d = S.sub(x, y)
            back = S.add(d, y)
            if sem == 'viterbi':
                okk = float(back) == A[i]
            else:
                okk = close(back, ex_, M) or (A[i] == A[j])
            if A[i] == A[j]:
                okk = float(back) == A[i] or close(back, ex_, M)
            if not okk:
                r.bad('law-violated', 'semirings.' + type(S).__name__, 'sub', '%s %s: sub(x,y)+y != x at x=%r y=%r: sub=%r back=%r' % (sem, dt, A[i], A[j], float(d), float(back)), case, key)
                continue
        r.ok(key, outcome='triple', nontrivial=True)


def run_case(case):
    import torch
    warnings.simplefilter('ignore')
    r = Res()
    if case[0] == 'sweep16':
        _, sem, dt = case
        unary_laws(sem_of(sem, dt), sem, dt, carrier16(sem, dt), r, case)
    elif case[0] == 'sweep32':
        _, sem, blk = case
        # every float32 bit pattern whose low (32 - SWEEP32_BITS) mantissa bits are zero, in blocks of 2^20 patterns
        bits = (torch.arange(0, 1 << 20, dtype=torch.int64) + (blk << 20)) << (32 - SWEEP32_BITS)
        bits = torch.where(bits >= (1 << 31), bits - (1 << 32), bits).to(torch.int32)
        x = bits.view(torch.float32)
        x = x[~torch.isnan(x)]
        if sem == 'real':
            x = x[(x >= 0) & ~torch.signbit(x)]
        if x.numel():
            unary_laws(sem_of(sem, 'float32'), sem, 'float32', x, r, case)
    elif case[0] == 'pairs16':
        _, sem, blk = case
        S = sem_of(sem, 'float16')
        c = carrier16(sem, 'float16')
        zero, one = S.from_int(0), S.from_int(1)
        for xi in range(blk, min(blk + 512, c.numel())):
            x = c[xi].expand(c.shape)
            ab, ba = S.add(x, c), S.add(c, x)
            mab, mba = S.mul(x, c), S.mul(c, x)
            bad = ~(ab == ba) | ~(mab == mba) | torch.isnan(ab) | torch.isnan(mab)
            if bool(bad.any()):
                i = int(bad.nonzero()[0])
                r.bad('law-violated', 'semirings.' + type(S).__name__, 'commutative-pairs', '%s float16: x=%r y=%r: x+y=%r y+x=%r x*y=%r y*x=%r' % (sem, float(c[xi]), float(c[i]), float(ab[i]), float(ba[i]), float(mab[i]), float(mba[i])), case, (case, xi))
            else:
                r.ok((case, xi), outcome='pairs', nontrivial=True)
                r.n += c.numel() - 1
    elif case[0] == 'triples':
        part_triples(case[1], case[2], case[3], r, case)
    elif case[0] == 'bool':
        part_bool(r, case)
    elif case[0] == 'from_int':
        part_from_int(r, case)
    elif case[0] == 'reprK':
        from checks.c06_patterned import block_patterns
        part_repr(None, r, case, block_patterns(case[1], case[2]))
    else:
        part_repr(case[1], r, case)
    return r


def part_bool(r, case):
    import torch
    from fggs.semirings import BoolSemiring
    S = BoolSemiring()
    V = [torch.tensor(False), torch.tensor(True)]
    zero, one = S.from_int(0), S.from_int(1)
    msgs = []
    if bool(zero) is not False or bool(one) is not True:
        msgs.append('from_int(0/1)')
    for x, y, z in itertools.product(V, repeat=3):
        if bool(S.add(S.add(x, y), z)) != bool(S.add(x, S.add(y, z))) or bool(S.add(x, y)) != (bool(x) or bool(y)):
            msgs.append('add')
        if bool(S.mul(S.mul(x, y), z)) != bool(S.mul(x, S.mul(y, z))) or bool(S.mul(x, y)) != (bool(x) and bool(y)):
            msgs.append('mul')
        if bool(S.mul(x, S.add(y, z))) != bool(S.add(S.mul(x, y), S.mul(x, z))):
            msgs.append('distributive')
        if bool(y) <= bool(x) and bool(S.add(S.sub(x, y), y)) != bool(x):
            msgs.append('sub')
        if bool(S.star(x)) is not True:
            msgs.append('star')
        c = x.clone()
        S.add_(c, y)
        if bool(c) != bool(S.add(x, y)) or bool(S.sum(torch.stack([x, y]), dim=0)) != bool(S.add(x, y)):
            msgs.append('add_/sum')
        r.n += 1
    if msgs:
        r.bad('law-violated', 'semirings.BoolSemiring', 'bool', 'Bool semiring laws fail: %r' % sorted(set(msgs)), case, case)
    else:
        r.ok(case, outcome='bool', nontrivial=True)
        r.nt.append(('bool', 2))


def part_from_int(r, case):
    import torch
    for sem in ('real', 'log', 'viterbi', 'bool'):
        from mc import ir as IR
        for dt in (('float64', 'float32') if sem != 'bool' else ('float64',)):
            S = IR.semiring(sem, dt)
            for m, n in itertools.product(range(9), repeat=2):
                key = (case, sem, dt, m, n)
                a, b = S.from_int(m), S.from_int(n)
                s1, s2 = S.add(a, b), S.from_int(m + n)
                p1, p2 = S.mul(a, b), S.from_int(m * n)

                def same(u, v):
                    if u.dtype == torch.bool:
                        return bool(u == v)
                    return bool(u == v) or abs(float(u) - float(v)) <= 1e-6 * max(1.0, abs(float(v)))
                exact_m = float(m) if sem == 'real' else ((math.log(m) if sem == 'log' else 0.0) if m else -inf)     # idempotent: 1+1 = 1
                tol_m = 0.0 if sem in ('real', 'bool') else (4e-16 if dt == 'float64' else 3e-7) * max(1.0, abs(exact_m))
                if sem != 'bool' and not (float(a) == exact_m or abs(float(a) - exact_m) <= tol_m):
                    r.bad('law-violated', 'semirings.' + type(S).__name__, 'from_int', '%s %s: from_int(%d) = %r, the image of %d is %r' % (sem, dt, m, float(a), m, exact_m), case, key)
                    continue
                if not same(s1, s2) or not same(p1, p2):
                    r.bad('law-violated', 'semirings.' + type(S).__name__, 'from_int', '%s %s: from_int(%d)+from_int(%d)=%r vs from_int(%d)=%r; product %r vs %r' % (sem, dt, m, n, s1.tolist(), m + n, s2.tolist(), p1.tolist(), p2.tolist()), case, key)
                else:
                    r.ok(key, outcome='from_int', nontrivial=m + n > 1)
            # histories: a constant obtained from from_int is used as an accumulator (in-place add_/mul/fill) and
            # from_int is asked again - it must still return the homomorphic image, for ints and for tensors
            for n in (0, 1, 2):
                key = (case, sem, dt, 'accumulator', n)
                try:
                    want = S.from_int(n).clone()
                    acc = S.from_int(n)
                    S.add_(acc, S.from_int(3))
                    acc2 = S.from_int(n)
                    acc2.copy_(S.from_int(5))
                    src = torch.tensor(n)
                    acc3 = S.from_int(src)
                    acc3.copy_(S.from_int(7))
                    again, again_t = S.from_int(n), S.from_int(torch.tensor(n))
                    okh = bool((again == want).all()) and bool((again_t == want).all()) and int(src) == n and again.dtype == want.dtype
                    if not okh:
                        r.bad('law-violated', 'semirings.' + type(S).__name__, 'from_int', '%s %s: after using from_int(%d) as an in-place accumulator, from_int(%d) = %r / %r (expected %r), source tensor %r' % (sem, dt, n, n, again.tolist(), again_t.tolist(), want.tolist(), src.tolist()), case, key)
                    else:
                        r.ok(key, outcome='from_int-history', nontrivial=True)
                except Exception as e:
                    r.exc(e, 'from_int', case, key)
            # from_int on tensors (used by eye/zeros)
            t = S.from_int(torch.tensor([0, 1, 2]))
            if not (bool(t[0] == S.from_int(0)) and bool(t[1] == S.from_int(1))):
                r.bad('law-violated', 'semirings.' + type(S).__name__, 'from_int', 'from_int on a tensor disagrees with from_int on ints', case, (case, sem, dt, 'tensor'))


def part_repr(i, r, case, pats=None):
    """add / mul / sub give the same result on patterned operands as on dense tensors."""
    import torch
    from fggs.indices import PatternedTensor
    from mc import ir as IR
    if pats is None:
        cat = P.catalogue(2, 2, 12, P.TYPES_SMALL)
        pats = cat[list(cat)[i]]
    for pa, pb in itertools.product(pats, repeat=2):
        for sem in ('real', 'log', 'viterbi', 'bool'):
            S = IR.semiring(sem, 'float64')
            zero = S.from_int(0).item()
            for da, db in ((zero, zero), ((5. if sem != 'bool' else True), zero)) + (((inf, zero), (zero, inf), (5., 5.), (5., 2.)) if sem != 'bool' else ((True, True),)):
                key = (case, pa, pb, sem, da, db)
                try:
                    if sem == 'bool':
                        a = P.instantiate(pa, da, torch.bool)
                        b = P.instantiate(pb, db, torch.bool, offset=1)
                        b = PatternedTensor(~b.physical, b.paxes, b.vaxes, db)
                    else:
                        a = P.instantiate(pa, da)
                        b = P.instantiate(pb, db, offset=3)
                        if sem != 'real':
                            a = PatternedTensor(a.physical.log(), a.paxes, a.vaxes, da if da in (zero, inf) else math.log(da))
                            b = PatternedTensor(b.physical.log(), b.paxes, b.vaxes, db if db in (zero, inf) else math.log(db))
                    A, B = a.to_dense(), b.to_dense()
                    variants = [('', a, b, A, B)]
                    if a.ndim == 2:
                        variants += [('row-left ', a[0], b, A[0], B), ('row-right ', a, b[0], A, B[0])]
                        if A.shape[0] == A.shape[1] and da == db:
                            # an operand and its own transpose share their physical axes
                            variants += [('own-transpose ', a, a.T, A, A.T)]
                    for opn, (vn, aa, bb, AA, BB) in itertools.product(('add', 'mul', 'sub'), variants):
                        if opn == 'sub' and db == inf and sem != 'real':
                            continue     # sub is stated for y <= x only; a default of +inf on the right is outside it (math.log1p(-inf))
                        got = getattr(S, opn)(aa, bb).to_dense()
                        want = getattr(S, opn)(AA.clone(), BB.clone())
                        opn = vn + opn
                        same = torch.equal(got, want) if got.dtype == torch.bool else (torch.equal(got.isnan(), want.isnan()) and torch.equal(got.nan_to_num(nan=0.), want.nan_to_num(nan=0.)))
                        if not same:
                            r.bad('representation-dependent', 'semirings.' + type(S).__name__ + '.' + opn, 'repr', '%s %s on %s default %r and %s default %r: patterned %r, dense %r' % (sem, opn, P.show(pa), da, P.show(pb), db, got.tolist(), want.tolist()), ('repr1', i), key)
                            break
                    else:
                        r.ok(key, outcome='repr', nontrivial=True)
                except Exception as e:
                    r.exc(e, 'repr', ('repr1', i), key)
