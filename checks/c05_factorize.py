"""C05 — factorization preserves the grammar's meaning and never widens a rule."""
import itertools, sys
from mc.core import Res
from mc import canon, ir as IR

PID = 'C05'
LEVEL = 'exploration'
RULE = ('every right-hand side with <= N nodes, <= E edges of arity <= A (arbitrary attachment tuples: repeated '
        'attachment, nullary edges, isolated nodes, several components), every ext sequence of <= 3 distinct nodes '
        '(up to isomorphism, each in two node numberings), edges terminal / first nonterminal / all '
        'nonterminal with existing nonterminal names chosen to collide with the fresh-name scheme (X_1, X_2...), x '
        '{min_fill, quickbb, acb} x {factorize_rule with and without labels, factorize_hrg on a two-rule grammar, '
        'factorize_hrg on HRG.copy(), factorize_fgg}: harness-side inlining of the fresh nonterminals must reproduce '
        'each original rule up to isomorphism, per left-hand side and in order; fresh names new and single-ruled; no '
        'new rule wider than its origin; start/terminals/factors/domains kept; sum_product equal; method forwarded '
        '(tree_decomposition spied on). Non-trivial = rule that is actually split.')
ASSUMPTIONS = ['isomorphism decided by mc.canon (colour refinement + brute force)']
CHUNK = 64
METHODS = ('min_fill', 'quickbb', 'acb')


def bounds(tier):
    return {'shapes': [(3, 2, 3, 3), (4, 3, 2, 3), (3, 4, 2, 3)] if tier == 'quick' else [(3, 3, 3, 3), (4, 3, 2, 3), (3, 4, 2, 3), (4, 4, 2, 2), (5, 3, 2, 2)],
            'presentations': ['nodes in canonical order', 'nodes inserted / numbered in reverse order']}


def gen_cases(tier, seed):
    seen = set()
    for (N, E, A, X) in bounds(tier)['shapes']:
        for sh in IR.shapes(N, E, A, ('T',), max_ext=X):
            if sh in seen or not sh[0]:
                continue
            seen.add(sh)
            yield sh
            # second presentation: the same shape with the node numbering reversed
            n = len(sh[0])
            rev = (sh[0][::-1], tuple(tuple(n - 1 - v for v in e) for e in sh[1]), tuple(n - 1 - v for v in sh[2]))
            if rev not in seen:
                seen.add(rev)
                yield rev


def describe(case):
    return {'node_labels': case[0], 'edge_attachments': case[1], 'ext': case[2]}


NTNAME = {0: 'X_3', 1: 'X_1', 2: 'X_2', 3: 'X_4'}


def build_rule(sh, ntmask, idmode='explicit'):
    import fggs
    labs, edges, ext = sh
    r = fggs.Graph()
    # idmode 'mixed': every second node keeps its implicit id (explicit and implicit ids may share one graph)
    ns = [r.new_node(l, id=('v%d' % i if idmode == 'explicit' or i % 2 == 0 else None)) for i, l in enumerate(labs)]
    for j, e in enumerate(edges):
        nt = ntmask >> j & 1
        name = NTNAME[len(e)] if nt else 'f%d' % len(e)
        r.new_edge(name, [ns[i] for i in e], is_terminal=not nt, is_nonterminal=bool(nt), id='e%d' % j)
    r.ext = [ns[i] for i in ext]
    lhs = fggs.EdgeLabel('X', [n.label for n in r.ext], is_nonterminal=True)
    return fggs.HRGRule(lhs, r)


def lsig(l):
    return (l.name, bool(l.is_terminal), tuple(x.name for x in l.type))


def inline(top, by_lhs, orig_labels, counter):
    """Substitute every edge whose label is not an original label by the unique rule of that label.
    Returns (node labels dict, edges list, ext list) with globally fresh names for internal nodes."""
    def expand(rule, nodemap, depth):
        if depth > 50:
            raise AssertionError('fresh nonterminals are recursive')
        nodes, edges = {}, []
        for v in rule.rhs.nodes():
            if v.id not in nodemap:
                nodemap[v.id] = 'n%d' % next(counter)
            nodes[nodemap[v.id]] = v.label.name
        for e in rule.rhs.edges():
            if e.label.is_nonterminal and e.label not in orig_labels:
                rs = by_lhs.get(e.label, [])
                if len(rs) != 1:
                    raise AssertionError('fresh nonterminal %s has %d rules' % (e.label.name, len(rs)))
                child = rs[0]
                if tuple(child.rhs.type) != tuple(e.label.type):
                    raise AssertionError('child rule type mismatch')
                cm = {}
                for cv, pv in zip(child.rhs.ext, e.nodes):
                    if cv.id in cm and cm[cv.id] != nodemap[pv.id]:
                        raise AssertionError('child external node repeated with different attachments')
                    cm[cv.id] = nodemap[pv.id]
                cn, ce = expand(child, cm, depth + 1)
                for k, l in cn.items():
                    if k in nodes and nodes[k] != l:
                        raise AssertionError('label clash while inlining')
                    nodes[k] = l
                edges += ce
            else:
                edges.append((lsig(e.label), tuple(nodemap[v.id] for v in e.nodes)))
        return nodes, edges
    nm = {}
    nodes, edges = expand(top, nm, 0)
    return nodes, edges, [nm[v.id] for v in top.rhs.ext]


def canon_flat(nodes, edges, ext):
    names = list(nodes)
    idx = {k: i for i, k in enumerate(names)}
    return canon.canon(tuple(nodes[k] for k in names), tuple((l, tuple(idx[v] for v in att)) for l, att in edges), tuple(idx[v] for v in ext))


def canon_rule(rule):
    return canon.canon_graph(rule.rhs)


def check_rules(newrules, originals, orig_labels, r, ctx, case, key):
    """originals: list of original rules (one grammar, in order). Returns True if fine."""
    by = {}
    for nr in newrules:
        by.setdefault(nr.lhs, []).append(nr)
    fresh = [l for l in by if l not in orig_labels]
    names = [l.name for l in fresh]
    if len(set(names)) != len(names) or set(names) & {l.name for l in orig_labels}:
        r.bad('fresh-name-collision', 'factorize.factorize_rule', ctx, 'fresh names %r collide (existing %r)' % (names, sorted(l.name for l in orig_labels)), case, key)
        return False
    counter = itertools.count()
    olhs = []
    for o in originals:
        if o.lhs not in olhs:
            olhs.append(o.lhs)
    for lhs in olhs:
        want = [o for o in originals if o.lhs == lhs]
        got = by.get(lhs, [])
        if len(got) != len(want):
            r.bad('rule-count', 'factorize.factorize_rule', ctx, 'lhs %s: %d rules after, %d before' % (lhs.name, len(got), len(want)), case, key)
            return False
        for o, nr in zip(want, got):
            try:
                flat = inline(nr, by, orig_labels, counter)
            except AssertionError as e:
                r.bad('not-inlinable', 'factorize.factorize_rule', ctx, '%s; original %r' % (e, canon.graph_tuple(o.rhs)), case, key)
                return False
            if canon_flat(*flat) != canon_rule(o):
                r.bad('rule-not-reproduced', 'factorize.factorize_rule', ctx, 'inlined %r != original %r' % (flat, canon.graph_tuple(o.rhs)), case, key)
                return False
    return True


def width_ok(newrules, origin_nodes, r, ctx, case, key):
    for nr in newrules:
        if len(nr.rhs.nodes()) > origin_nodes:
            r.bad('wider-rule', 'factorize.factorize_rule', ctx, 'new rule has %d nodes, origin %d' % (len(nr.rhs.nodes()), origin_nodes), case, key)
            return False
    return True


class Spy:
    def __init__(self):
        self.F = sys.modules['fggs.factorize']
        self.orig = self.F.tree_decomposition
        self.seen = []

    def __enter__(self):
        def td(graph, method='min_fill'):
            self.seen.append(method)
            return self.orig(graph, method=method)
        self.F.tree_decomposition = td
        return self

    def __exit__(self, *a):
        self.F.tree_decomposition = self.orig


def run_case(case):
    import fggs, torch
    import fggs as _f
    F = sys.modules['fggs.factorize']
    sh = case
    labs, edges, ext = sh
    r = Res()
    masks = sorted({0, 1, (1 << len(edges)) - 1}) if edges else [0]
    for ntmask in masks:
        rule = build_rule(sh, ntmask)
        n_nodes = len(labs)
        for m in METHODS:
            key = (sh, ntmask, m)
            okall = True
            split = False
            # (a) factorize_rule, without and with labels
            rule_explicit = rule
            for with_labels, idmode in ((False, 'explicit'), (True, 'explicit'), (False, 'mixed'), ('empty', 'explicit')):
                ctx = 'factorize_rule' + ('/mixed-ids' if idmode == 'mixed' else '') + ('/labels=set()' if with_labels == 'empty' else '')
                rule = rule_explicit if idmode == 'explicit' else build_rule(sh, ntmask, 'mixed')
                orig_labels = {rule.lhs} | set(rule.rhs.edge_labels())
                extra = fggs.EdgeLabel('X_5', [], is_nonterminal=True)
                labels = (set() if with_labels == 'empty' else set(orig_labels) | {extra}) if with_labels else None
                try:
                    with Spy() as spy:
                        new = F.factorize_rule(rule, method=(m + '.')[:-1], labels=labels) if with_labels else F.factorize_rule(rule, method=(m + '.')[:-1])
                except Exception as e:
                    r.exc(e, ctx, (sh,), key)
                    okall = False
                    break
                if spy.seen != [m]:
                    r.bad('method-ignored', 'factorize.factorize_rule', ctx, 'asked %s, tree_decomposition got %r' % (m, spy.seen), (sh,), key)
                    okall = False
                    break
                ol = set(orig_labels) | ({extra} if with_labels is True else set())
                if not (check_rules(new, [rule], ol, r, ctx, (sh,), key) and width_ok(new, n_nodes, r, ctx, (sh,), key)):
                    okall = False
                    break
                if with_labels:
                    fresh = {nr.lhs for nr in new} - ol
                    expect = (ol if with_labels is True else {rule.lhs} | set(rule.rhs.nonterminals())) | fresh
                    if labels != expect:
                        r.bad('labels-argument', 'factorize.factorize_rule', ctx, 'labels after call %r, expected originals + fresh %r' % (sorted(l.name for l in labels), sorted(l.name for l in expect)), (sh,), key)
                        okall = False
                        break
                split = split or len(new) > 1
            rule = rule_explicit
            if not okall:
                continue
            # (b) factorize_hrg on a two-rule grammar (the rule twice under one lhs, plus a start rule), and on its copy
            ctx = 'factorize_hrg'
            try:
                g = fggs.HRG('S')
                srhs = fggs.Graph()
                sn = [srhs.new_node(l.name) for l in rule.lhs.type]
                srhs.add_edge(fggs.Edge(rule.lhs, sn))
                g.new_rule('S', srhs)
                g.add_rule(rule)
                g.add_rule(build_rule(sh, ntmask))
                # a third presentation: terminals that already carry the names a fresh nonterminal would get first
                gt = g.copy()
                trhs = fggs.Graph()
                for base in (rule.lhs.name, 'S'):
                    for nm_ in [n_ for n_ in ('%s_%d' % (base, k) for k in range(1, 8)) if not gt.has_edge_label_name(n_)][:2]:
                        trhs.add_edge(fggs.Edge(fggs.EdgeLabel(nm_, [], is_terminal=True), []))
                gt.new_rule('S', trhs)
                for variant, gg in (('hrg', g), ('hrg-copy', g.copy()), ('hrg-suffixed-names-taken', gt)):
                    originals = gg.all_rules()
                    ol = set(gg.edge_labels())
                    with Spy() as spy:
                        gn = F.factorize_hrg(gg, method=m)
                    if set(spy.seen) != {m}:
                        r.bad('method-ignored', 'factorize.factorize_hrg', ctx, 'asked %s, tree_decomposition got %r' % (m, spy.seen), (sh,), key)
                        okall = False
                        break
                    if gn.start != gg.start or set(gn.terminals()) != set(gg.terminals()) or not set(gg.nonterminals()) <= set(gn.nonterminals()):
                        r.bad('start-or-labels-changed', 'factorize.factorize_hrg', variant, 'start/terminals/nonterminals differ', (sh,), key)
                        okall = False
                        break
                    if not (check_rules(gn.all_rules(), originals, ol, r, variant, (sh,), key) and width_ok(gn.all_rules(), max(n_nodes, len(sn)), r, variant, (sh,), key)):
                        okall = False
                        break
            except Exception as e:
                r.exc(e, ctx, (sh,), key)
                okall = False
            if not okall:
                continue
            # (c) factorize_fgg: same factors/domains, same sum-product (terminal-only rules)
            if ntmask == 0:
                ctx = 'factorize_fgg'
                try:
                    names = tuple('f%d' % len(e) for e in edges)
                    g_ir = IR.single_rule_ir(sh, names, 2)
                    g_ir['w'] = IR.generic_weights(g_ir)
                    fg = IR.build_fgg(g_ir, 'real')
                    with Spy() as spy:
                        fn = F.factorize_fgg(fg, method=m)
                    if set(spy.seen) != {m}:
                        r.bad('method-ignored', 'factorize.factorize_fgg', ctx, 'asked %s, tree_decomposition got %r' % (m, spy.seen), (sh,), key)
                        continue
                    if fn.start != fg.start or set(fn.factors) != set(fg.factors) or any(fn.factors[k] != fg.factors[k] for k in fg.factors) or \
                            set(fn.domains) != set(fg.domains) or any(fn.domains[k] != fg.domains[k] for k in fg.domains):
                        r.bad('interpretation-changed', 'factorize.factorize_fgg', ctx, 'start/factors/domains differ', (sh,), key)
                        continue
                    if not check_rules(fn.all_rules(), fg.all_rules(), set(fg.edge_labels()), r, ctx, (sh,), key):
                        continue
                    z0 = fggs.sum_product(fg, semiring=IR.semiring('real')).to_dense()
                    z1 = fggs.sum_product(fn, semiring=IR.semiring('real')).to_dense()
                    if not IR.tensors_agree(z1, z0):
                        r.bad('sum-product-changed', 'factorize.factorize_fgg', ctx, 'before %r after %r' % (z0.tolist(), z1.tolist()), (sh,), key)
                        continue
                except Exception as e:
                    r.exc(e, ctx, (sh,), key)
                    continue
            r.ok(key, outcome=('split', split), nontrivial=split)
    return r
