"""C10 — tree decompositions valid; exact methods optimal."""
import itertools
from mc.core import Res
from mc import oracles

PID = 'C10'
LEVEL = 'exploration'
RULE = ('every labelled simple graph on n <= N vertices (all 2^(n(n-1)/2) edge sets), adjacency dict built in '
        'ascending and in descending vertex order, x {min_fill, quickbb, acb}: decomposition validity (tree, vertex '
        'and edge cover, running intersection) checked by the harness; width vs exact treewidth (subset DP); '
        'min_fill/quickbb orders re-eliminated by the harness; bounds bracket the treewidth. Non-trivial = graph '
        'with >= 1 edge; distinct by (n, edge bits, order). Quick tier additionally replays the 80 pre-computed 7-vertex graphs on '
        'which min-fill is suboptimal (data/hard7.json) and all their one-vertex extensions; hub graphs (3 hubs: every choice of 0-2 parallel 2-paths and an optional direct edge per hub pair, <= 9 vertices; 4 hubs: uniform choices, <= 16 vertices). Thorough tier additionally: every two-vertex extension (9 vertices) of the hard7 graphs and every one-vertex extension (8 vertices) '
        'of each 7-vertex graph on which min-fill is suboptimal, i.e. where quickbb actually has to search.')
ASSUMPTIONS = ['vertices are small ints', 'treewidth oracle: Bodlaender et al. subset DP, plain Python']
METHODS = ('min_fill', 'quickbb', 'acb')
BLOCK = 64
CASE_TIMEOUT_S = 300.0   # a case is a block of up to 128 graphs x 2 orders x 3 methods


def bounds(tier):
    return {'max_vertices': 6, 'plus_n7_upto': 0 if tier == 'quick' else (1 << 21),
            'methods': METHODS, 'vertex_orders': ['asc', 'desc']}


def gen_cases(tier, seed):
    N = bounds(tier)['max_vertices']
    for n in range(0, N + 1):
        total = 1 << (n * (n - 1) // 2)
        for lo in range(0, total, BLOCK):
            yield (n, lo, min(total, lo + BLOCK))
    if tier == 'quick':
        # pre-computed inputs (mc.gen_hard7): all labelled 7-vertex graphs on which min-fill is suboptimal, i.e. on which
        # quickbb's branch and bound actually runs; replayed in both vertex orders, plus all their one-vertex extensions
        import json, os
        path = os.path.join(os.path.dirname(os.path.dirname(os.path.abspath(__file__))), 'data', 'hard7.json')
        if os.path.exists(path):
            for bits in json.load(open(path)):
                yield (7, bits, bits + 1)
                yield ('ext8', bits)
    # hub graphs: h hubs, every pair of hubs joined by p parallel paths of length 2 and optionally a direct edge
    # (partial k-trees in which the vertex extending a separator need not be adjacent to it)
    for spec in hub_specs(tier):
        yield ('hub', spec)
    if tier == 'thorough':
        n = 7
        total = 1 << 21
        # all 2^21 labelled graphs on 7 vertices, in blocks
        for lo in range(0, total, BLOCK * 2):
            yield (n, lo, min(total, lo + BLOCK * 2))


def describe(case):
    if case[0] == 'hub':
        return {'hubs': case[1][0], 'per_pair_(parallel_2-paths, direct_edge)': list(case[1][1])}
    if case[0] == 'ext9':
        return {'two_vertex_extensions_of_7_vertex_graph_with_edge_bits': case[1], 'neighbourhood_mask_of_vertex_7': case[2]}
    if case[0] == 'ext8':
        return {'one_vertex_extensions_of_7_vertex_graph_with_edge_bits': case[1]}
    return {'n': case[0], 'edge_bits_from': case[1], 'to': case[2]}


def mkgraph(n, bits, order):
    pairs = list(itertools.combinations(range(n), 2))
    vs = list(range(n))
    if order:
        vs.reverse()
    g = {v: set() for v in vs}
    for i, (u, v) in enumerate(pairs):
        if bits >> i & 1:
            g[u].add(v)
            g[v].add(u)
    return g


def copyg(g):
    return {u: set(g[u]) for u in g}


def validate(g, t):
    """Returns None if t is a valid tree decomposition of g, else a message."""
    if not isinstance(t, dict) or len(t) == 0:
        return 'no bags'
    bags = list(t)
    for b in bags:
        for c in t[b]:
            if c not in t or b not in t[c]:
                return 'asymmetric / dangling tree edge'
            if c == b:
                return 'self loop in tree'
    nedges = sum(len(t[b]) for b in bags) // 2
    if nedges != len(bags) - 1:
        return 'not a tree: %d bags, %d edges' % (len(bags), nedges)
    seen = {bags[0]}
    stack = [bags[0]]
    while stack:
        b = stack.pop()
        for c in t[b]:
            if c not in seen:
                seen.add(c)
                stack.append(c)
    if len(seen) != len(bags):
        return 'tree not connected'
    allv = set().union(*bags) if bags else set()
    if allv != set(g):
        return 'vertex cover: bags hold %r, graph has %r' % (sorted(allv), sorted(g))
    for u in g:
        for v in g[u]:
            if not any(u in b and v in b for b in bags):
                return 'edge %r-%r in no bag' % (u, v)
    for v in g:
        holding = [b for b in bags if v in b]
        seen = {holding[0]}
        stack = [holding[0]]
        while stack:
            b = stack.pop()
            for c in t[b]:
                if v in c and c not in seen:
                    seen.add(c)
                    stack.append(c)
        if len(seen) != len(holding):
            return 'running intersection fails for vertex %r' % (v,)
    return None


def width_of_order(g, order):
    g = copyg(g)
    if sorted(order) != sorted(g):
        return None
    w = -1
    for v in order:
        nb = g[v]
        w = max(w, len(nb))
        for a in nb:
            for b in nb:
                if a != b:
                    g[a].add(b)
        for a in nb:
            g[a].discard(v)
        del g[v]
    return w


def hub_specs(tier):
    import itertools
    out = []
    opts = [(p, d) for p in (0, 1, 2) for d in (0, 1)]
    for combo in itertools.product(opts, repeat=3):          # 3 hubs: every choice per pair, <= 9 vertices
        out.append((3, combo))
    for p in (1, 2):                                         # 4 hubs, uniform choices, <= 16 vertices
        for d in (0, 1):
            out.append((4, ((p, d),) * 6))
    if tier == 'thorough':
        for combo in itertools.product([(0, 1), (1, 0), (2, 0)], repeat=6):
            out.append((4, combo))
    return out


def hub_graph(spec, order):
    import itertools
    h, combo = spec
    g = {v: set() for v in range(h)}
    nxt = h
    for (a, b), (p, d) in zip(itertools.combinations(range(h), 2), combo):
        if d:
            g[a].add(b); g[b].add(a)
        for _ in range(p):
            g[nxt] = {a, b}
            g[a].add(nxt); g[b].add(nxt)
            nxt += 1
    vs = sorted(g, reverse=bool(order))
    return {v: set(g[v]) for v in vs}


def run_case(case):
    r = Res()
    if case[0] == 'hub':
        for order in (0, 1):
            g = hub_graph(case[1], order)
            judge_graph(g, ('hub', case[1], order), case, True, r)
        return r
    if case[0] == 'ext9':
        # every two-vertex extension of a hard 7-vertex graph: this case fixes the 8th vertex' neighbourhood
        _, bits, m8 = case
        base = mkgraph(7, bits, 0)
        for m9 in range(256):
            for order in (0, 1):
                vs = list(range(9))
                if order:
                    vs.reverse()
                g = {v: set() for v in vs}
                for u in base:
                    for v in base[u]:
                        g[u].add(v)
                for u in range(7):
                    if m8 >> u & 1:
                        g[7].add(u); g[u].add(7)
                for u in range(8):
                    if m9 >> u & 1:
                        g[8].add(u); g[u].add(8)
                judge_graph(g, ('ext9', bits, m8, m9, order), ('ext9', bits, m8), True, r)
        return r
    if case[0] == 'ext8':
        # every one-vertex extension of a 7-vertex graph on which min-fill is not optimal (quickbb has to search there)
        _, bits = case
        base = mkgraph(7, bits, 0)
        for nb_mask in range(128):
            for order in (0, 1):
                vs = list(range(8))
                if order:
                    vs.reverse()
                g = {v: set() for v in vs}
                for u in base:
                    for v in base[u]:
                        g[u].add(v)
                for u in range(7):
                    if nb_mask >> u & 1:
                        g[7].add(u)
                        g[u].add(7)
                judge_graph(g, ('ext8', bits, nb_mask, order), ('ext8', bits), True, r)
        return r
    n, lo, hi = case
    for bits in range(lo, hi):
        for order in (0, 1):
            g = mkgraph(n, bits, order)
            res = judge_graph(g, (n, bits, order), (n, bits, bits + 1), bits != 0, r)
            if n == 7 and order == 0 and res is not None and res[1] > res[0]:
                r.payload.append(bits)
    return r


def judge_graph(g, key, sub, nontriv, r):
    """All C10 judgements for one graph; returns (treewidth, min_fill width) or None."""
    import sys
    F = sys.modules['fggs.factorize']
    n = len(g)
    tw = oracles.treewidth(g)
    okall = True
    try:
        lb = F.minor_min_width(copyg(g)) if n else None
        ub, ord_mf = F.min_fill(copyg(g))
        qb, ord_qb = F.quickbb(copyg(g))
    except Exception as e:
        r.exc(e, 'any', sub, key)
        return None
    if n:
        if not (lb <= tw):
            r.bad('lower-bound-too-high', 'factorize.minor_min_width', 'any', 'g=%r lb=%r tw=%r' % (g, lb, tw), sub, key); okall = False
        if not (tw <= ub):
            r.bad('upper-bound-too-low', 'factorize.min_fill', 'any', 'g=%r ub=%r tw=%r' % (g, ub, tw), sub, key); okall = False
        w = width_of_order(g, ord_mf)
        if w is None or w != ub:
            r.bad('min_fill-width-misreported', 'factorize.min_fill', 'any', 'g=%r reported=%r order=%r actual=%r' % (g, ub, ord_mf, w), sub, key); okall = False
        w = width_of_order(g, ord_qb)
        if qb != tw or w is None or w != tw:
            r.bad('quickbb-not-optimal', 'factorize.quickbb', 'any', 'g=%r reported=%r order=%r order-width=%r tw=%r' % (g, qb, ord_qb, w, tw), sub, key); okall = False
    for m in METHODS:
        try:
            t = F.tree_decomposition(copyg(g), method=(m + '.')[:-1])      # an equal string that is not the interned literal
        except Exception as e:
            r.exc(e, m, sub, key)
            okall = False
            continue
        msg = validate(g, t)
        if msg:
            r.bad('invalid-decomposition', 'factorize.tree_decomposition', m, 'g=%r method=%s: %s; t=%r' % (g, m, msg, t), sub, key)
            okall = False
            continue
        width = max(len(b) for b in t) - 1
        if m in ('quickbb', 'acb') and width != tw:
            r.bad('not-optimal', 'factorize.tree_decomposition', m, 'g=%r method=%s width=%d treewidth=%d' % (g, m, width, tw), sub, key)
            okall = False
        elif m == 'min_fill' and n and width != ub:
            r.bad('min_fill-width-misreported', 'factorize.tree_decomposition', m, 'g=%r decomposition width=%d reported=%d' % (g, width, ub), sub, key)
            okall = False
    if okall:
        r.ok(key, outcome=('tw', tw), nontrivial=nontriv)
    return (tw, ub if n else -1)


def explore(tier, seed, acc, jobs):
    """quick: plain enumeration.  thorough: enumeration up to 7 vertices, then every one-vertex extension (all 128
    neighbourhoods, two vertex orders) of each 7-vertex graph on which min-fill is not optimal."""
    import sys
    from mc.core import run_pool, Accum
    me = sys.modules[__name__]
    run_pool(me, gen_cases(tier, seed), acc, jobs=jobs)
    if tier != 'thorough':
        return
    hard = sorted(set(acc.payloads))
    acc.payloads = []
    cap = 3000
    acc.extra['n7_graphs_where_min_fill_is_suboptimal'] = len(hard)
    if len(hard) > cap:
        acc.caps.append('8-vertex extensions built for the first %d of %d hard 7-vertex graphs' % (cap, len(hard)))
        hard = hard[:cap]
    run_pool(me, [('ext8', b) for b in hard], acc, jobs=jobs, chunk=4)
    # 9 vertices: every two-vertex extension of the pre-computed hard 7-vertex graphs (data/hard7.json)
    import json, os
    path = os.path.join(os.path.dirname(os.path.dirname(os.path.abspath(__file__))), 'data', 'hard7.json')
    if os.path.exists(path):
        h7 = json.load(open(path))
        acc.extra['two_vertex_extensions_of_hard7'] = len(h7) * 128 * 256
        run_pool(me, [('ext9', b, m8) for b in h7 for m8 in range(128)], acc, jobs=jobs, chunk=8)
