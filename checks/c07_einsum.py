"""C07 — patterned einsum equals the semiring einsum of the dense operands."""
import itertools, math, warnings
from mc.core import Res
from mc import ptinv

PID = 'C07'
LEVEL = 'exploration'
RULE = ('every einsum signature with <= 2 operands of rank <= 2 over <= 3 indices (plus: 3 operands of rank <= 2, and '
        'rank-3 operands, over reduced pattern sets), an index may repeat inside an operand, every ordered subset of the '
        'indices as output, up to renaming; index sizes mixed (2,3,2,3) and uniform (2,2,2,2), plus slices with a '
        'size-1 and a size-0 index; each operand x patterns {dense, permuted view, stride-0 on last / first / all axes, '
        'diagonal (shared axis), one-hot and offset SumAxis, non-zero default, product-split axis} x values (distinct '
        'integers; with a 0 and an inf entry) x {Real, Log, Viterbi, Bool} x requires_grad {off, on (under no_grad)}; '
        'oracle = brute-force loops over all index values with 0*inf=0; log_viterbi_einsum_forward: out = max and the '
        'pointers, read as values of the summed-out indices in order of first appearance, are in range and attain the '
        'max; mv / mm shorthands; the empty operand list. Non-trivial = result not all-zero.')
ASSUMPTIONS = ['dense operands are taken from to_dense() (validated separately by C06)',
               'Viterbi pointer variant judged on operands without +inf entries; cells whose maximum is -inf only need in-range pointers',
               'requires_grad=on is exercised under torch.no_grad(), as autograd.Function.forward does']
CHUNK = 8
inf = math.inf
SEMS = ('real', 'log', 'viterbi', 'bool')


def bounds(tier):
    return {'two_operands': {'max_rank': 2, 'indices': 3}, 'three_operands': {'max_rank': 2 if tier == 'thorough' else 1, 'indices': 3},
            'rank3': 'ijk with one more operand of rank <= 2', 'size_assignments': ['2,3,2,3', '2,2,2,2', 'i=1', 'i=0']}


def sigs(max_ops, max_rank, idx, min_ops=0):
    seen = set()
    cands = [t for rr in range(0, max_rank + 1) for t in itertools.product(idx, repeat=rr)]
    for nops in range(min_ops, max_ops + 1):
        for ops in itertools.product(cands, repeat=nops):
            first = []
            for o in ops:
                for c in o:
                    if c not in first:
                        first.append(c)
            if first != list(idx[:len(first)]):
                continue
            used = sorted(set(first))
            for rr in range(len(used) + 1):
                for out in itertools.permutations(used, rr):
                    yield ops, out


SIZES = {'mixed': {'i': 2, 'j': 3, 'k': 2, 'l': 3}, 'uniform': {'i': 2, 'j': 2, 'k': 2, 'l': 2},
         'uniform3': {'i': 3, 'j': 3, 'k': 3, 'l': 3}, 'one': {'i': 1, 'j': 3, 'k': 2, 'l': 3}, 'zero': {'i': 0, 'j': 3, 'k': 2, 'l': 3}, 'four': {'i': 4, 'j': 2, 'k': 4, 'l': 2}}


def gen_cases(tier, seed):
    # (A) <= 2 operands, rank <= 2, 3 indices: all patterns
    for ops, out in sigs(2, 2, 'ijk'):
        for sz in ('mixed', 'uniform'):
            yield ('E', ops, out, sz, 'all')
        if any('i' in o for o in ops):
            yield ('E', ops, out, 'one', 'few')
            yield ('E', ops, out, 'zero', 'few')
    # (A') equal operands passed as the very same object (or its transpose), sizes 3 so that offset blocks exist
    for ops, out in sigs(2, 2, 'ijk', min_ops=2):
        if len(set(map(len, ops))) == 1:
            yield ('E', ops, out, 'uniform3', 'shared3')
    # (B) 3 operands
    for ops, out in sigs(3, 1 if tier == 'quick' else 2, 'ijk', min_ops=3):
        yield ('E', ops, out, 'mixed', 'few')
    if tier == 'quick':
        for ops, out in sigs(3, 2, 'ij', min_ops=3):
            if max(len(o) for o in ops) == 2:
                yield ('E', ops, out, 'mixed', 'min')
    # (C) a rank-3 operand with one more operand (equal sizes: pointer grids over >= 3 output axes)
    for o2 in [()] + [t for rr in (1, 2) for t in itertools.product('ijkl', repeat=rr)]:
        ops = (('i', 'j', 'k'), o2)
        used = sorted(set('ijk') | set(o2))
        if 'l' in o2 and o2.index('l') != len(o2) - 1 and o2.count('l') == 1:
            pass
        for rr in (len(used), len(used) - 1, 3, 2) if tier == 'thorough' else (3,):
            if rr < 0 or rr > len(used):
                continue
            for out in itertools.permutations(used, rr):
                if tier == 'quick' and out not in (('i', 'j', 'k'), ('k', 'j', 'i'), ('j', 'i', 'k')):
                    continue
                yield ('E', ops, out, 'uniform', 'few3')
    # (D) product-split axes (size 4)
    for ops, out in sigs(2, 2, 'ij'):
        if ops and any('i' in o for o in ops):
            yield ('E', ops, out, 'four', 'split')
    yield ('S',)
    for sz in (3, 4):
        for sem in SEMS:
            yield ('chain', sz, sem)


def describe(case):
    if case[0] == 'E':
        return {'equation': ','.join(''.join(o) for o in case[1]) + '->' + ''.join(case[2]), 'sizes': SIZES[case[3]], 'pattern_set': case[4]}
    return {'case': list(case)}


# ---------------------------------------------------------------------------------------------
# operand patterns (real-valued; converted per semiring)

def patterns_for(shape, which):
    """list of (name, builder) ; builder(offset) -> PatternedTensor (float64, real encoding, default 0 unless stated)."""
    import torch
    from fggs.indices import PatternedTensor, PhysicalAxis, SumAxis, unitAxis, productAxis
    n = 1
    for s in shape:
        n *= s

    def base(off):
        return torch.arange(1. + off, n + 1. + off, dtype=torch.float64).reshape(shape)
    out = [('dense', lambda off: PatternedTensor(base(off)))]
    rank = len(shape)
    if rank >= 1 and n > 0:
        rev = tuple(reversed(range(rank)))
        out.append(('permuted', lambda off: PatternedTensor(base(off).permute(*rev).contiguous().permute(*rev))))
        if rank >= 2:
            # physical axes listed in another order than the virtual axes (what .T / permute of a PatternedTensor give)
            out.append(('transposed', lambda off: PatternedTensor(base(off).permute(*rev).contiguous()).permute(rev)))
        # a view into a larger buffer: non-zero storage offset
        out.append(('sliced', lambda off: PatternedTensor(torch.cat([torch.full((3,), -7., dtype=torch.float64), base(off).reshape(-1)])[3:].reshape(shape))))
        if shape[-1] > 1:
            out.append(('stride0-last', lambda off: PatternedTensor(base(off)[..., 0:1].expand(shape))))
        if rank >= 2 and shape[0] > 1:
            out.append(('stride0-first', lambda off: PatternedTensor(base(off)[0:1].expand(shape))))
        out.append(('stride0-all', lambda off: PatternedTensor(torch.tensor(2. + off, dtype=torch.float64).expand(shape))))
        if shape[0] >= 2:
            def onehot(off, d=0.):
                k = [PhysicalAxis(s) for s in shape[1:]]
                return PatternedTensor(base(off)[1].clone(), tuple(k), (SumAxis(1, unitAxis, shape[0] - 2),) + tuple(k), d)
            out.append(('onehot', onehot))

            def onehot0(off):
                k = [PhysicalAxis(s) for s in shape[1:]]
                return PatternedTensor(base(off)[0].clone(), tuple(k), (SumAxis(0, unitAxis, shape[0] - 1),) + tuple(k), 0.)
            out.append(('onehot0', onehot0))
            out.append(('onehot-default5', lambda off: onehot(off, 5.)))
        if shape[0] >= 3:
            def offset(off):
                k0 = PhysicalAxis(shape[0] - 1)
                k = [PhysicalAxis(s) for s in shape[1:]]
                return PatternedTensor(base(off)[1:].clone(), (k0,) + tuple(k), (SumAxis(1, k0, 0),) + tuple(k), 0.)
            out.append(('offset', offset))

            def offset5(off):
                k0 = PhysicalAxis(shape[0] - 1)
                k = [PhysicalAxis(s) for s in shape[1:]]
                return PatternedTensor(base(off)[1:].clone(), (k0,) + tuple(k), (SumAxis(1, k0, 0),) + tuple(k), 5.)
            out.append(('offset-default5', offset5))
        if rank == 2 and shape[0] == shape[1] and shape[0] > 1:
            def diag(off):
                k = PhysicalAxis(shape[0])
                return PatternedTensor(base(off).diagonal().clone(), (k,), (k, k), 0.)
            out.append(('diag', diag))

            def diag5(off):
                k = PhysicalAxis(shape[0])
                return PatternedTensor(base(off).diagonal().clone(), (k,), (k, k), 5.)
            out.append(('diag-default5', diag5))
        if rank == 3 and shape[0] == shape[1] == shape[2] and shape[0] > 1:
            def diag3(off):
                k, m = PhysicalAxis(shape[0]), PhysicalAxis(shape[0])
                return PatternedTensor(base(off)[:, :, 0].clone(), (k, m), (k, m, m), 0.)
            out.append(('diag-last-two', diag3))
        if shape[0] == 4:
            def split(off):
                a, b = PhysicalAxis(2), PhysicalAxis(2)
                k = [PhysicalAxis(s) for s in shape[1:]]
                return PatternedTensor(base(off).reshape((2, 2) + tuple(shape[1:])), (a, b) + tuple(k), (productAxis((a, b)),) + tuple(k), 0.)
            out.append(('split', split))
            if rank == 2 and shape[1] == 2:
                def split_shared(off):
                    a, b = PhysicalAxis(2), PhysicalAxis(2)
                    return PatternedTensor(base(off).reshape(2, 2, 2)[:, :, 0].clone(), (a, b), (productAxis((a, b)), b), 0.)
                out.append(('split-shared', split_shared))
    if which == 'all':
        return out
    if which == 'shared3':
        return [x for x in out if x[0] in ('dense', 'offset', 'offset-default5', 'onehot0', 'diag', 'permuted')]
    if which == 'split':
        return [x for x in out if x[0] in ('dense', 'split', 'split-shared', 'stride0-all')]
    if which == 'min':
        return [x for x in out if x[0] in ('dense', 'stride0-all', 'diag')][:3]
    if which == 'few3':
        return [x for x in out if x[0] in ('dense', 'diag', 'diag-last-two', 'stride0-all', 'onehot', 'transposed')]
    return [x for x in out if x[0] in ('dense', 'stride0-all', 'diag', 'diag-default5', 'onehot', 'onehot0', 'permuted', 'transposed', 'sliced')]


def restride(ph, f, grad):
    """Apply f to the storage of ph and return a tensor with the SAME size/stride/offset (so stride-0 and
    permuted layouts survive the conversion); optionally make the storage a leaf that requires grad."""
    import torch
    size, stride, off = tuple(ph.size()), tuple(ph.stride()), ph.storage_offset()
    if ph.numel() == 0:
        out = f(ph.clone())
        return out.requires_grad_(True) if grad and out.dtype.is_floating_point else out
    n = off + 1 + sum((s - 1) * st for s, st in zip(size, stride))
    flat = f(torch.as_strided(ph, (n,), (1,), 0).clone())
    if grad and flat.dtype.is_floating_point:
        flat.requires_grad_(True)
    return torch.as_strided(flat, size, stride, off)


def chains(case, r):
    """Two-level histories: the result of one einsum (whose axes are the - partly renamed - axes of its inputs) is
    used, once or twice, as an operand of a second einsum together with the original operands."""
    import torch
    from fggs.indices import einsum
    from mc import ir as IR
    _, n, sem = case
    sizes = {c: n for c in 'ijk'}
    S = IR.semiring(sem, 'float64')
    vecs = [x for x in patterns_for((n,), 'all') if x[0] in ('dense', 'onehot', 'offset', 'offset-default5', 'stride0-all', 'split')]
    mats = [x for x in patterns_for((n, n), 'all') if x[0] in ('dense', 'diag', 'permuted', 'offset')]
    # history: a structurally-zero scalar result is overwritten in place by its caller (as fixed-point iteration does
    # with copy_); a later einsum over an empty index must still yield the semiring zero
    try:
        from fggs.indices import PatternedTensor
        dt = torch.bool if sem == 'bool' else torch.float64
        zero = S.from_int(0)
        e0 = PatternedTensor(torch.zeros((0,), dtype=dt), default=zero.item())
        z = einsum([e0, e0], [('i',), ('i',)], (), S)
        five = S.from_int(5) if sem != 'bool' else S.from_int(1)
        z.copy_(PatternedTensor(five.clone(), default=zero.item()))
        m0 = PatternedTensor(torch.zeros((2, 0), dtype=dt), default=zero.item())
        again = einsum([m0, e0], [('j', 'i'), ('i',)], ('j',), S).to_dense()
        z2 = einsum([e0, e0], [('i',), ('i',)], (), S).to_dense()
        if not (bool((again == zero).all()) and bool((z2 == zero).all())):
            r.bad('wrong-einsum', 'indices.einsum', sem, 'after a caller overwrote a structurally-zero scalar result in place, a sum over an empty index gives %r / %r instead of the semiring zero %r' % (again.tolist(), z2.tolist(), zero.item()), case, ('chain', n, sem, 'zero-history'))
        else:
            r.ok(('chain', n, sem, 'zero-history'), outcome=(sem, 'zero-history'), nontrivial=True)
    except Exception as e:
        r.exc(e, sem, case, ('chain', n, sem, 'zero-history'))
    firsts = [((('i',), ('j',)), ('i', 'j'), 'vv'), ((('i',), ('i',)), ('i',), 'vv'), ((('i', 'j'), ('j',)), ('i',), 'mv'), ((('i', 'j'), ('j', 'k')), ('i', 'k'), 'mm'),
              ((('i', 'j'), ('i', 'j')), ('i', 'j'), 'mm')]
    for (ops1, out1, kind) in firsts:
        cands = itertools.product(mats if kind[0] == 'm' else vecs, mats if kind[1] == 'm' else vecs)
        for (na, ba), (nb, bb) in cands:
            for same in (False, True):
                if same and (na != nb or kind[0] != kind[1]):
                    continue
                a = ba(0)
                b = a if same else bb(3)
                A, B = a.to_dense(), b.to_dense()
                O = ref([A, B], ops1, out1, sizes, 'max' if sem == 'viterbi' else 'sum')[0]
                key0 = ('chain', n, sem, ops1, out1, na, nb, same)
                try:
                    ta, tb = to_sem(a, sem, False), (None if same else to_sem(b, sem, False))
                    tb = ta if same else tb
                    o = einsum([ta, tb], [tuple(x) for x in ops1], tuple(out1), S)
                    seconds = []
                    if len(out1) == 2:
                        seconds = [((('i', 'j'), ('i', 'j')), ('i', 'j'), [o, o], [O, O]), ((('i', 'j'), ('j', 'k')), ('i', 'k'), [o, o], [O, O]),
                                   ((('i', 'j'), ('j', 'i')), ('i',), [o, o], [O, O]), ((('i', 'j'),), ('j', 'i'), [o], [O])]
                        if kind == 'vv':
                            seconds.append(((('i', 'j'), ('j',)), ('i',), [o, ta], [O, A]))
                        else:
                            seconds.append(((('i', 'j'), ('j', 'k')), ('i', 'k'), [o, ta], [O, A]))
                    else:
                        seconds = [((('i',), ('i',)), ('i',), [o, o], [O, O]), ((('i',), ('j',)), ('i', 'j'), [o, o], [O, O]), ((('i',), ('i',)), (), [o, ta if kind[0] == 'v' else o], [O, A if kind[0] == 'v' else O])]
                    for ops2, out2, tens, dens in seconds:
                        key = key0 + (ops2, out2, len(tens))
                        res = einsum(tens, [tuple(x) for x in ops2], tuple(out2), S).to_dense()
                        want = ref(dens, ops2, out2, sizes, 'max' if sem == 'viterbi' else 'sum')[0]
                        exp = want if sem == 'real' else (want > 0 if sem == 'bool' else want.log())
                        if not agree(res, exp):
                            r.bad('wrong-einsum', 'indices.einsum', sem, 'chained: first %s(%s,%s%s) -> %s, then %s -> %s: got %r, expected %r' % (ops1, na, nb, ' same object' if same else '', out1, ops2, out2, res.tolist(), exp.tolist()), case, key)
                        else:
                            r.ok(key, outcome=(sem, 'chain'), nontrivial=bool((want != 0).any()))
                except ptinv.RepInvariantError as e:
                    r.bad('representation-invariant', 'indices.einsum', sem, 'chained %r: %s' % (key0, e), case, key0)
                except Warning as w:
                    r.excl['chained einsum leaves the well-typed scope (warning)'] += 1
                except Exception as e:
                    r.exc(e, sem, case, key0)


def to_sem(t, sem, grad):
    """real-encoded PatternedTensor -> encoding of the semiring (layout of the physical tensor preserved)"""
    import torch
    from fggs.indices import PatternedTensor
    if sem == 'real':
        return PatternedTensor(restride(t.physical, lambda x: x, grad), t.paxes, t.vaxes, t.default)
    if sem == 'bool':
        return PatternedTensor(restride(t.physical, lambda x: x > 0, False), t.paxes, t.vaxes, bool(t.default > 0))
    return PatternedTensor(restride(t.physical, lambda x: x.log(), grad), t.paxes, t.vaxes, (math.log(t.default) if t.default > 0 else -inf))


def ref(dense, ops, out, sizes, mode):
    """brute-force semiring einsum on real-encoded dense operands; mode 'sum' or 'max' (real space)."""
    import torch
    idx = []
    for o in ops:
        for c in o:
            if c not in idx:
                idx.append(c)
    summed = [c for c in idx if c not in out]
    res = []
    arg = []
    for oa in itertools.product(*[range(sizes[c]) for c in out]):
        acc = 0.
        best = None
        for sa in itertools.product(*[range(sizes[c]) for c in summed]):
            env = dict(zip(out, oa))
            env.update(zip(summed, sa))
            p = 1.
            for d, o in zip(dense, ops):
                v = d[tuple(env[c] for c in o)].item()
                p = 0. if (p == 0 or v == 0) else p * v
            if mode == 'sum':
                acc += p
            else:
                if p > acc or best is None:
                    if p > acc:
                        acc = p
                    best = sa if best is None or p >= acc else best
        res.append(acc)
    return torch.tensor(res, dtype=torch.float64).reshape([sizes[c] for c in out]), summed


def run_case(case):
    import torch
    warnings.simplefilter('error')
    ptinv.install()
    r = Res()
    try:
        if case[0] == 'E':
            equation_case(case, r)
        elif case[0] == 'chain':
            chains(case, r)
        elif case[0] == 'E1':
            _, ops, out, sz, names, dev = case
            one_combo(ops, out, sz, names, dev, r)
        else:
            shorthands(r)
    finally:
        warnings.simplefilter('ignore')
    return r


def equation_case(case, r):
    _, ops, out, sz, which = case
    sizes = SIZES[sz]
    shapes = [tuple(sizes[c] for c in o) for o in ops]
    lists = [patterns_for(s, which) for s in shapes]
    for combo in itertools.product(*[[x[0] for x in l] for l in lists]):
        for dev in ((False, True, 'inf-first', 'shared') if which in ('all', 'few') else (('shared',) if which == 'shared3' else (False,))):
            one_combo(ops, out, sz, combo, dev, r)


def one_combo(ops, out, sz, names, dev, r):
    import torch
    from fggs.indices import PatternedTensor, einsum, log_viterbi_einsum_forward
    from mc import ir as IR
    sizes = SIZES[sz]
    shapes = [tuple(sizes[c] for c in o) for o in ops]
    sub = ('E1', ops, out, sz, tuple(names), dev)
    eq = ','.join(''.join(o) for o in ops) + '->' + ''.join(out)
    desc = '%s sizes %s patterns %r%s' % (eq, sz, list(names), ' with 0/inf entries' if dev is True else (' with inf in the first and 0 in the last operand' if dev == 'inf-first' else (' (equal operands are the same object)' if dev else '')))
    try:
        ts = []
        for k, (shape, nm) in enumerate(zip(shapes, names)):
            b = dict(patterns_for(shape, 'all'))[nm]
            ts.append(b(3 * k))
        if dev is True and ts:
            t0 = ts[0]
            if t0.physical.numel() and t0.physical.is_contiguous():
                p = t0.physical.clone()
                p.view(-1)[0] = 0.
                ts[0] = PatternedTensor(p, t0.paxes, t0.vaxes, t0.default)
            if len(ts) > 1 and ts[-1].physical.numel() and ts[-1].physical.is_contiguous():
                t1 = ts[-1]
                p = t1.physical.clone()
                p.view(-1)[-1] = inf
                ts[-1] = PatternedTensor(p, t1.paxes, t1.vaxes, t1.default)
        if dev == 'inf-first' and len(ts) > 1:
            # the FIRST operand holds +inf where the LAST one (which holds no inf at all) is zero: 0 x inf = 0
            t0, t1 = ts[0], ts[-1]
            if not (t0.physical.numel() and t0.physical.is_contiguous() and t1.physical.numel() and t1.physical.is_contiguous()):
                return
            p = t0.physical.clone()
            p.view(-1)[0] = inf
            ts[0] = PatternedTensor(p, t0.paxes, t0.vaxes, t0.default)
            p = t1.physical.clone()
            p.view(-1)[0] = 0.
            ts[-1] = PatternedTensor(p, t1.paxes, t1.vaxes, t1.default)
        if dev == 'shared':
            # the very same PatternedTensor object (or a flattened / transposed view sharing its axes) for equal operands
            can_share = any((shapes[j] == shapes[k] and names[j] == names[k]) or
                            (len(shapes[j]) == 2 and shapes[k] == tuple(reversed(shapes[j])) and names[j] == names[k] == 'dense')
                            for k in range(1, len(ts)) for j in range(k))
            if not can_share:
                return
            for k in range(1, len(ts)):
                for j in range(k):
                    if shapes[j] == shapes[k] and names[j] == names[k]:
                        ts[k] = ts[j]
                    elif len(shapes[j]) == 2 and shapes[k] == tuple(reversed(shapes[j])) and names[j] == names[k] == 'dense':
                        ts[k] = ts[j].T
            # views without a bare physical axis among their virtual axes
            if len(ts) == 2 and names[0] == names[1] == 'dense' and len(shapes[0]) == 2 and shapes[0] == shapes[1] and shapes[0][0] == shapes[0][1]:
                n0 = shapes[0][0]
                base2 = ts[0]
                ts[0] = base2.flatten().reshape(n0, n0) if False else base2
                ts[1] = base2.T
        dense = [t.to_dense() for t in ts]
    except Exception as e:
        r.exc(e, 'build', sub, sub)
        return
    want_sum, summed = ref(dense, ops, out, sizes, 'sum')
    has_inf = any(bool(torch.isinf(d).any()) for d in dense)
    inputs = [tuple(o) for o in ops]
    for sem in SEMS:
        S = IR.semiring(sem, 'float64')
        if sem == 'viterbi':
            want = ref(dense, ops, out, sizes, 'max')[0]
        else:
            want = want_sum
        if sem == 'real':
            exp = want
        elif sem == 'bool':
            exp = want > 0
        else:
            exp = want.log()
        for grad in ((False, True) if sem != 'bool' else (False,)):
            key = sub + (sem, grad)
            try:
                tt = [to_sem(t, sem, grad) for t in ts]
                with torch.no_grad():
                    res = einsum(tt, inputs, tuple(out), S)
                got = res.to_dense().detach()
            except ptinv.RepInvariantError as e:
                r.bad('representation-invariant', 'indices.einsum', sem, '%s: %s' % (desc, e), sub, key)
                continue
            except Warning as w:
                r.bad('type-mismatch-warning', 'indices.einsum', sem, '%s: %s' % (desc, str(w)[:150]), sub, key)
                continue
            except Exception as e:
                r.exc(e, sem, sub, key, msg='%s %s grad=%s: %s: %s' % (desc, sem, grad, type(e).__name__, str(e)[:200]))
                continue
            if not agree(got, exp):
                r.bad('wrong-einsum', 'indices.einsum', sem, '%s %s grad=%s: got %r, semiring einsum of the dense operands %r' % (desc, sem, grad, got.tolist(), exp.tolist()), sub, key)
                continue
            r.ok(key, outcome=(sem, 'zero' if not bool((want != 0).any()) else 'nonzero'), nontrivial=bool((want != 0).any()) if want.numel() else False)
    # Viterbi variant with pointers
    if has_inf:
        r.excl['viterbi pointer variant: operand with +inf'] += 1
        return
    S = IR.semiring('viterbi', 'float64')
    wmax = ref(dense, ops, out, sizes, 'max')[0]
    exp = wmax.log()
    for grad in (False, True):
        key = sub + ('ptr', grad)
        try:
            tt = [to_sem(t, 'viterbi', grad) for t in ts]
            ld = [t.to_dense().detach() for t in tt]
            with torch.no_grad():
                o2, ptr = log_viterbi_einsum_forward(tt, inputs, tuple(out), S)
            got = o2.to_dense().detach()
            pd = ptr.to_dense()
        except ptinv.RepInvariantError as e:
            r.bad('representation-invariant', 'indices.log_viterbi_einsum_forward', 'ptr', '%s: %s' % (desc, e), sub, key)
            continue
        except Warning as w:
            r.bad('type-mismatch-warning', 'indices.log_viterbi_einsum_forward', 'ptr', '%s: %s' % (desc, str(w)[:150]), sub, key)
            continue
        except Exception as e:
            r.exc(e, 'ptr', sub, key, msg='%s viterbi-variant grad=%s: %s: %s' % (desc, grad, type(e).__name__, str(e)[:200]))
            continue
        if not agree(got, exp):
            r.bad('wrong-einsum', 'indices.log_viterbi_einsum_forward', 'ptr', '%s: max %r, expected %r' % (desc, got.tolist(), exp.tolist()), sub, key)
            continue
        zero_summed = any(sizes[c] == 0 for c in summed)
        if zero_summed or exp.numel() == 0:
            r.ok(key, outcome='ptr-empty', nontrivial=False)
            continue
        if tuple(pd.shape) != tuple(exp.shape) + (len(summed),):
            if not bool((exp > -inf).any()):
                r.ok(key, outcome='ptr-zero-result', nontrivial=False)
                continue
            r.bad('pointer-shape', 'indices.log_viterbi_einsum_forward', 'ptr', '%s: pointer shape %r, expected %r' % (desc, tuple(pd.shape), tuple(exp.shape) + (len(summed),)), sub, key)
            continue
        okp = True
        for oa in itertools.product(*[range(sizes[c]) for c in out]):
            vals = [int(x) for x in (pd[oa] if len(summed) else [])]
            env = dict(zip(out, oa))
            env.update(zip(summed, vals))
            if any(not (0 <= env[c] < sizes[c]) for c in summed):
                r.bad('pointer-out-of-range', 'indices.log_viterbi_einsum_forward', 'ptr', '%s: cell %r pointer %r' % (desc, oa, vals), sub, key)
                okp = False
                break
            if float(exp[oa]) == -inf:
                continue
            p = 0.
            for d, o in zip(ld, ops):
                v = float(d[tuple(env[c] for c in o)])
                p = -inf if (p == -inf or v == -inf) else p + v
            if abs(p - float(exp[oa])) > 1e-9 * max(1., abs(p)):
                r.bad('pointer-not-argmax', 'indices.log_viterbi_einsum_forward', 'ptr', '%s: cell %r pointer %r has weight %r, maximum %r' % (desc, oa, dict(zip(summed, vals)), p, float(exp[oa])), sub, key)
                okp = False
                break
        if okp:
            r.ok(key, outcome='ptr-ok', nontrivial=len(summed) > 0)


def agree(got, exp):
    import torch
    if tuple(got.shape) != tuple(exp.shape) or got.dtype != exp.dtype:
        return False
    if got.dtype == torch.bool:
        return bool(torch.equal(got, exp))
    if bool(torch.isnan(got).any()):
        return False
    if not torch.equal(torch.isinf(got), torch.isinf(exp)):
        return False
    m = torch.isinf(exp)
    return bool(torch.equal(got[m], exp[m])) and bool(torch.allclose(got[~m], exp[~m], rtol=1e-11, atol=1e-12))


def shorthands(r):
    import torch
    from fggs.indices import PatternedTensor, einsum
    from mc import ir as IR
    # empty operand list
    for sem in SEMS:
        S = IR.semiring(sem, 'float64')
        try:
            res = einsum([], [], [], S).to_dense()
            if not agree(res, S.from_int(1).reshape(())):
                r.bad('wrong-einsum', 'indices.einsum', sem, 'einsum of no operands = %r, expected the semiring one' % (res.tolist(),), ('S',), ('S', 'empty', sem))
            else:
                r.ok(('S', 'empty', sem), outcome='empty', nontrivial=True)
        except Exception as e:
            r.exc(e, sem, ('S',), ('S', 'empty', sem))
    # mv / mm on every pattern pair
    sizes = {'i': 2, 'j': 3, 'k': 2}
    for na, ba in patterns_for((2, 3), 'all'):
        for nb, bb in patterns_for((3,), 'all'):
            judge_short('mv', ba(0), bb(7), 'ij,j->i', sizes, r, (na, nb))
        for nb, bb in patterns_for((3, 2), 'all'):
            judge_short('mm', ba(0), bb(7), 'ij,jk->ik', sizes, r, (na, nb))


def judge_short(kind, a, b, eq, sizes, r, names):
    import torch
    from mc import ir as IR
    ins, out = eq.split('->')
    ops = [tuple(x) for x in ins.split(',')]
    dense = [a.to_dense(), b.to_dense()]
    for sem in SEMS:
        S = IR.semiring(sem, 'float64')
        want = ref(dense, ops, tuple(out), sizes, 'max' if sem == 'viterbi' else 'sum')[0]
        exp = want if sem == 'real' else (want > 0 if sem == 'bool' else want.log())
        key = ('S', kind, names, sem)
        try:
            ta, tb = to_sem(a, sem, False), to_sem(b, sem, False)
            got = (ta.mv(tb, S) if kind == 'mv' else ta.mm(tb, S)).to_dense()
        except Exception as e:
            r.exc(e, sem, ('S',), key)
            continue
        if not agree(got, exp):
            r.bad('wrong-einsum', 'indices.PatternedTensor.' + kind, sem, '%s patterns %r %s: got %r expected %r' % (kind, names, sem, got.tolist(), exp.tolist()), ('S',), key)
        else:
            r.ok(key, outcome=kind, nontrivial=True)
