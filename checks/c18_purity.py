"""C18 — queries are pure: inputs are never mutated, results are reproducible.

Explicit-state search over query histories: a state is (object, history of queries run on it); every enabled query
is a transition executed on the real library; before and after every transition all arguments are snapshotted bit for
bit, and the result is compared with the same query on a pristine rebuild of the object.
"""
import itertools, math, json, warnings, sys
from fractions import Fraction
from mc.core import Res
from mc import ir as IR, canon, patterns as P

PID = 'C18'
LEVEL = 'model_checking'
RULE = ('objects: 8 FGGs (non-recursive multi-rule with shared factor / edgeless nodes / rule-less nonterminal, linear '
        'recursive with external nodes, quadratic, mutual non-linear, pattern-growing with a diagonal-patterned factor; '
        'float64 dense, requires_grad, log-weights with -inf, bool); query alphabet: sum_product and sum_products per '
        '(method, semiring, j_precompute), viterbi per start assignment, factorize_rule / factorize_hrg / factorize_fgg per '
        'method, conjoin_hrgs in both argument orders with a partner grammar, fgg_to_json, hrg_to_json; every history of '
        'length <= 2 (thorough 3), i.e. every ordered pair incl. a query after itself; oracle: bit-exact snapshot '
        '(structure incl. rule table keys and label tables, domains, tensor storage bytes, strides, offsets, defaults, '
        'requires_grad, grad) of every argument before/after every query, == with a copy taken before, and the result of '
        'the last query equal to the same query on a pristine rebuild; plus: every in-place operation applied to a clone '
        'of each catalogue PatternedTensor / of a MultiTensor leaves the source bit-identical. states = (object, history) '
        'pairs; transitions = queries executed.')
ASSUMPTIONS = ['labels argument of factorize_rule is documented to grow and is excluded from the snapshot comparison',
               'back-propagation is not a query (it is supposed to write .grad)']
CHUNK = 2
CASE_TIMEOUT_S = 1500.0    # a case is one first query followed by every continuation (thorough: every pair of continuations)


def bounds(tier):
    return {'history_length': 2 if tier == 'quick' else 3, 'objects': len(OBJECTS)}


# ---------------------------------------------------------------------------------------------
# objects

def empty_dom_ir(T, vals):
    """S -> X ; X -> z(v) | a Y ; Y -> c X | d, with v over an EMPTY domain: in the first iterate the only
    contribution to X is a structurally-zero scalar (a sum over nothing); X becomes non-zero one iteration later."""
    ir = {'start': 'S', 'nl': {'Z': 0}, 'term': {'a': (), 'c': (), 'd': (), 'z': ('Z',)}, 'nt': {'S': (), 'X': (), 'Y': ()},
          'rules': [('S', (), (), (('X', ()),)), ('X', ('Z',), (), (('z', (0,)),)), ('X', (), (), (('a', ()), ('Y', ()))),
                    ('Y', (), (), (('c', ()), ('X', ()))), ('Y', (), (), (('d', ()),))]}
    w = IR.generic_weights(ir, values=vals)
    w['z'] = []
    ir['w'] = w
    return ir


def obj_specs():
    T = IR.recursive_templates()
    q = Fraction(1, 4)

    def with_w(name, dom, vals):
        ir = dict(T[name])
        ir['nl'] = {k: dom for k in ir['nl']}
        w = IR.generic_weights(ir, values=vals)
        for (n, idx), v in ir.get('fixed', {}).items():
            if dom > 1:
                w = IR.set_entry(w, n, idx, v)
        ir['w'] = w
        return ir
    nonrec = {'start': 'S', 'nl': {'T': 2}, 'term': {'t0': (), 't1': ('T',), 't2': ('T', 'T')}, 'nt': {'S': (), 'X': ('T',), 'Y': ('T',), 'U': ('T',)},
              'rules': [('S', ('T', 'T', 'T'), (), (('X', (0,)), ('t2', (0, 1)), ('t1', (0,)))), ('X', ('T', 'T'), (0,), (('t2', (0, 1)), ('Y', (1,)))),
                        ('X', ('T',), (0,), (('t1', (0,)), ('t0', ()))), ('Y', ('T',), (0,), (('t1', (0,)),)), ('Y', ('T', 'T'), (0,), (('U', (1,)),))]}
    nonrec['w'] = IR.generic_weights(nonrec, stride=7)
    vals = [Fraction(1, 4), Fraction(1, 8), Fraction(1, 2), Fraction(1, 16), Fraction(3, 16)]
    return [
        ('nonrec/real', nonrec, 'real', False),
        ('nonrec/real/grad', nonrec, 'real', True),
        ('lin-ext/real', with_w('lin-ext', 2, vals), 'real', False),
        ('lin-ext/log/grad', with_w('lin-ext', 2, vals + [Fraction(0)]), 'log', True),
        ('lin-ext/bool', with_w('lin-ext', 2, vals + [Fraction(0)]), 'bool', False),
        ('mutual-nonlin/real', with_w('mutual-nonlin', 1, vals), 'real', False),
        ('late-first-edge/viterbi', with_w('late-first-edge', 1, vals), 'viterbi', False),
        ('diag-growth/real/grad', with_w('diag-growth', 2, vals), 'real', True),
        ('quad-ext/log/grad', with_w('quad-ext', 2, vals), 'log', True),        # start symbol of arity 1: start assignments can be out of range
        ('mutual+empty-domain/real', empty_dom_ir(T, vals), 'real', False),
    ]


OBJECTS = [s[0] for s in obj_specs()]


def build_obj(spec):
    name, ir, sem, grad = spec
    g = IR.build_fgg(ir, sem, 'float64', requires_grad=grad, pres={'ids': 'asc'})
    # an interpretation may cover labels that no rule uses: a spare domain and a spare factor
    import fggs, torch
    g.add_node_label(fggs.NodeLabel('Spare'))
    g.new_finite_domain('Spare', ['p', 'q', 'r'])
    g.add_edge_label(fggs.EdgeLabel('spare', [fggs.NodeLabel('Spare')], is_terminal=True))
    S = IR.semiring(sem, 'float64')
    g.new_finite_factor('spare', S.from_int(torch.tensor([1, 0, 2])))
    return g


def partner(g):
    """An HRG over the same nodes and nonterminal edges (same objects, same ids) whose terminal edges are new."""
    import fggs
    h = fggs.HRG(g.start)
    for rule in g.all_rules():
        rhs = fggs.Graph()
        for v in rule.rhs.nodes():
            rhs.add_node(v)
        rhs.ext = rule.rhs.ext
        for e in rule.rhs.edges():
            if e.label.is_nonterminal:
                rhs.add_edge(e)
        lab = fggs.EdgeLabel('p_' + rule.lhs.name, [], is_terminal=True)
        rhs.add_edge(fggs.Edge(lab, []))
        h.add_rule(fggs.HRGRule(rule.lhs, rhs))
    return h


# ---------------------------------------------------------------------------------------------
# snapshots

def lsig(l):
    return (l.name, bool(l.is_terminal), tuple(x.name for x in l.type))


def snap_graph(g):
    return (tuple((repr(n.id), n.label.name, n.persist_id) for n in g.nodes()),
            tuple((repr(e.id), lsig(e.label), tuple(repr(v.id) for v in e.nodes), e.persist_id) for e in g.edges()),
            tuple(repr(v.id) for v in g.ext), tuple(l.name for l in g.node_labels()), tuple(lsig(l) for l in g.edge_labels()))


def snap_pt(t):
    import torch
    names = {}
    for k in t.paxes:
        names[id(k)] = len(names)

    def s(e):
        from fggs.indices import PhysicalAxis, ProductAxis, SumAxis
        if isinstance(e, PhysicalAxis):
            return ('x', names.get(id(e), -1), e._numel)
        if isinstance(e, ProductAxis):
            return ('p', tuple(s(f) for f in e.factors))
        return ('s', e.before, s(e.term), e.after)
    ph = t.physical
    n = ph.storage_offset() + 1 + sum((sz - 1) * st for sz, st in zip(ph.size(), ph.stride())) if ph.numel() else 0
    flat = torch.as_strided(ph.detach(), (n,), (1,), 0) if n else ph.detach().reshape(-1)
    raw = flat.contiguous().view(torch.uint8).numpy().tobytes() if flat.dtype != torch.bool else flat.numpy().tobytes()
    g = ph.grad
    return (tuple(s(e) for e in t.vaxes), tuple(k._numel for k in t.paxes), repr(t.default), str(ph.dtype), tuple(ph.size()), tuple(ph.stride()),
            ph.storage_offset(), raw, ph.requires_grad, None if g is None else g.detach().numpy().tobytes(), id(ph))


def snap_hrg(h):
    return (lsig(h.start) if h.start is not None else None,
            tuple((lsig(lhs), tuple(snap_graph(r.rhs) for r in rs), tuple(id(r) for r in rs)) for lhs, rs in h._rules.items()),
            tuple(l.name for l in h.node_labels()), tuple(lsig(l) for l in h.edge_labels()),
            tuple(snap_graph(r.rhs) for r in h.all_rules()))


def snap_global():
    import torch
    return (('grad_enabled', torch.is_grad_enabled()), ('default_dtype', str(torch.get_default_dtype())), ('recursionlimit', sys.getrecursionlimit()))


def snap_fgg(g):
    doms = tuple((k, type(d).__name__, repr(d.to_json()), id(d)) for k, d in g.domains.items())
    facs = tuple((k, id(f), tuple(id(d) for d in f.domains), snap_pt(f.weights), id(f.weights)) for k, f in g.factors.items())
    return (snap_hrg(g), doms, facs)


# ---------------------------------------------------------------------------------------------
# queries

def queries(spec, g):
    """list of (name, fn(objects) -> canonical result)"""
    import fggs, torch
    name, ir, sem, grad = spec
    S = IR.semiring(sem, 'float64')
    qs = []
    from checks.c02_recursive import is_linear
    rec = IR.is_recursive(ir)
    lin = (not rec) or is_linear(ir)

    def tens(t):
        dd = t.to_dense()
        d = dd.detach()
        return (str(d.dtype), tuple(d.shape), d.numpy().tobytes(), bool(dd.requires_grad))
    sems = [(sem, S)]
    if sem == 'real':
        sems.append(('log', IR.semiring('log', 'float64')))      # the same numbers read as log-weights: still a legal query
    if sem in ('log', 'viterbi'):
        sems.append(('viterbi' if sem == 'log' else 'log', IR.semiring('viterbi' if sem == 'log' else 'log', 'float64')))
    for sn, SS in sems:
        for m in ('fixed-point', 'newton') + (('linear',) if lin else ()):
            for jp in ((False, True) if m == 'newton' and sn in ('real', 'log') else (False,)):
                qs.append(('sum_product(%s,%s,jp=%s)' % (m, sn, jp), lambda o, m=m, SS=SS, jp=jp: tens(fggs.sum_product(o['g'], method=m, semiring=SS, j_precompute=jp, tol=1e-10, kmax=300))))
    qs.append(('sum_products', lambda o: tuple((k.name, tens(v)) for k, v in fggs.sum_products(o['g'], semiring=S, tol=1e-10, kmax=300).items())))
    if sem in ('log', 'viterbi', 'real'):
        from mc import oracles
        shape = oracles.ext_shape(ir, ir['start'])
        for ea in list(oracles.all_assts(shape))[:2]:
            def vit(o, ea=ea):
                d = fggs.viterbi(o['g'], ea, semiring=IR.semiring('viterbi', 'float64'))
                return deriv_key(o['g'], d)
            qs.append(('viterbi%r' % (ea,), vit))
        # a query that fails (start assignment out of range / of the wrong length); later queries must not notice
        bad = tuple(n for n in shape) if shape else (0,)
        qs.append(('viterbi%r [invalid assignment]' % (bad,), lambda o, bad=bad: deriv_key(o['g'], fggs.viterbi(o['g'], bad, semiring=IR.semiring('viterbi', 'float64')))))
    # queries whose semiring does not fit the weights' dtype (they may fail; the grammar must be left alone)
    if sem != 'bool':
        qs.append(('sum_product(fixed-point,bool semiring on float weights)', lambda o: tens(fggs.sum_product(o['g'], method='fixed-point', semiring=IR.semiring('bool', 'float64')))))
        qs.append(('sum_products(float32 semiring on float64 weights)', lambda o: tuple((k.name, tens(v)) for k, v in fggs.sum_products(o['g'], semiring=IR.semiring(sem, 'float32'), tol=1e-6, kmax=300).items())))
    for m in ('min_fill', 'quickbb', 'acb'):
        qs.append(('factorize_rule(%s)' % m, lambda o, m=m: tuple(tuple((lsig(r.lhs), canon.canon_graph(r.rhs)) for r in fggs.factorize_rule(rule, method=m)) for rule in o['g'].all_rules())))
        qs.append(('factorize_hrg(%s)' % m, lambda o, m=m: hrg_key(fggs.factorize_hrg(o['g'], method=m))))
    qs.append(('factorize_fgg(min_fill)', lambda o: hrg_key(fggs.factorize_fgg(o['g'], method='min_fill'))))
    qs.append(('conjoin(g,h)', lambda o: hrg_key(fggs.conjoin_hrgs(o['g'], o['h']))))
    qs.append(('conjoin(h,g)', lambda o: hrg_key(fggs.conjoin_hrgs(o['h'], o['g']))))
    qs.append(('fgg_to_json', lambda o: json.dumps(fggs.fgg_to_json(o['g']), sort_keys=True)))
    qs.append(('hrg_to_json', lambda o: json.dumps(fggs.hrg_to_json(o['g']), sort_keys=True)))
    return qs


def deriv_key(g, d, depth=0):
    if depth > 50:
        return 'deep'
    rule_index = next(i for i, r in enumerate(g.all_rules()) if r is d.rule)
    nodes = list(d.rule.rhs.nodes())
    kids = [e for e in d.rule.rhs.edges() if e.label.is_nonterminal]
    return (rule_index, tuple(int(d.asst[v]) for v in nodes), tuple(deriv_key(g, d.children[e], depth + 1) for e in kids))


def hrg_key(h):
    return (lsig(h.start), tuple((lsig(r.lhs), canon.canon_graph(r.rhs)) for r in h.all_rules()), tuple(sorted(lsig(l) for l in h.edge_labels())))


def gen_cases(tier, seed):
    specs = obj_specs()
    for oi, spec in enumerate(specs):
        g = build_obj(spec)
        nq = len(queries(spec, g))
        for q1 in range(nq):
            yield ('H', tier, oi, q1)
    for i in range(len(P.catalogue(2, 2, 12, P.TYPES_SMALL))):
        yield ('I', i)
    yield ('MT',)


def describe(case):
    if case[0] == 'H':
        spec = obj_specs()[case[2]]
        g = build_obj(spec)
        return {'object': spec[0], 'first_query': queries(spec, g)[case[3]][0], 'then': 'every query of the alphabet'}
    return {'case': list(case)}


def run_case(case):
    warnings.simplefilter('ignore')
    sys.setrecursionlimit(800)
    r = Res()
    if case[0] == 'H':
        histories(case[1], case[2], case[3], r, case)
    elif case[0] == 'H1':
        _, oi, hist = case
        one_history(oi, tuple(hist), r, case)
    elif case[0] == 'I':
        inplace_pt(case[1], r, case)
    else:
        inplace_mt(r, case)
    return r


def histories(tier, oi, q1, r, case):
    spec = obj_specs()[oi]
    nq = len(queries(spec, build_obj(spec)))
    L = bounds(tier)['history_length']
    for rest in itertools.product(range(nq), repeat=L - 1):
        one_history(oi, (q1,) + rest, r, ('H1', oi, (q1,) + rest))


_pristine = {}


def pristine_result(oi, qi):
    """result of query qi on a freshly built object (cached per process)"""
    k = (oi, qi)
    if k not in _pristine:
        spec = obj_specs()[oi]
        g = build_obj(spec)
        o = {'g': g, 'h': partner(g)}
        try:
            _pristine[k] = ('ok', queries(spec, g)[qi][1](o))
        except RecursionError:
            _pristine[k] = ('exc', 'RecursionError')
        except Exception as e:
            _pristine[k] = ('exc', type(e).__name__ + ':' + str(e)[:80])
    return _pristine[k]


def one_history(oi, hist, r, case):
    import fggs
    spec = obj_specs()[oi]
    g = build_obj(spec)
    o = {'g': g, 'h': partner(g)}
    qs = queries(spec, g)
    key = case
    r.states += 1
    gcopy = g.copy()
    last = None
    names = [qs[i][0] for i in hist]
    for step, qi in enumerate(hist):
        before = (snap_fgg(g), snap_hrg(o['h']), snap_global())
        try:
            res = ('ok', qs[qi][1](o))
        except RecursionError:
            res = ('exc', 'RecursionError')
        except Exception as e:
            res = ('exc', type(e).__name__ + ':' + str(e)[:80])
        r.trans += 1
        after = (snap_fgg(g), snap_hrg(o['h']), snap_global())
        if after[2] != before[2]:
            r.bad('global-state-changed', 'fggs.' + qs[qi][0].split('(')[0], 'query', 'object %s: query %s (history %r) changed process-wide state %r -> %r' % (spec[0], qs[qi][0], names[:step + 1], before[2], after[2]), case, key)
            import torch
            torch.set_grad_enabled(True)
            return
        if after != before:
            what = diff_fields(before, after)
            r.bad('argument-mutated', 'fggs.' + qs[qi][0].split('(')[0], 'query', 'object %s: query %s (history %r) changed its arguments: %s' % (spec[0], qs[qi][0], names[:step + 1], what), case, key)
            return
        try:
            eq = (g == gcopy) and (gcopy == g)
        except Exception as e:
            eq = False
        if not eq:
            r.bad('argument-mutated', 'fggs.' + qs[qi][0].split('(')[0], 'query', 'object %s: after %s (history %r) the grammar no longer equals the copy taken before' % (spec[0], qs[qi][0], names[:step + 1]), case, key)
            return
        want = pristine_result(oi, qi)
        if res != want:
            r.bad('result-not-reproducible', 'fggs.' + qs[qi][0].split('(')[0], 'query', 'object %s: %s after %r gives %s, on a pristine object %s' % (spec[0], qs[qi][0], names[:step], short(res), short(want)), case, key)
            return
        last = res
    r.ok(key, outcome=(spec[0], 'exc' if last and last[0] == 'exc' else 'ok'), nontrivial=True)


def short(x):
    return repr(x)[:260]


def diff_fields(a, b):
    out = []
    (fa, ha), (fb, hb) = a[:2], b[:2]
    if fa[0] != fb[0]:
        out.append('grammar structure / rule table / label tables')
    if fa[1] != fb[1]:
        out.append('domains')
    if fa[2] != fb[2]:
        for x, y in zip(fa[2], fb[2]):
            if x != y:
                out.append('factor %s (weights storage/strides/default/grad or identity)' % x[0])
    if ha != hb:
        out.append('partner HRG')
    return ', '.join(out) or 'unknown field'


# ---------------------------------------------------------------------------------------------
# in-place operations on clones

def inplace_pt(i, r, case):
    import torch
    cat = P.catalogue(2, 2, 12, P.TYPES_SMALL)
    tt = list(cat)[i]
    ops = [('neg_', lambda t, u: t.neg_()), ('abs_', lambda t, u: t.abs_()), ('relu_', lambda t, u: t.relu_()), ('log_', lambda t, u: t.log_()),
           ('nan_to_num_', lambda t, u: t.nan_to_num_(nan=0., posinf=1., neginf=-1.)), ('imul', lambda t, u: t.__imul__(3.)), ('itruediv', lambda t, u: t.__itruediv__(2.)),
           ('imul-tensor', lambda t, u: t.__imul__(u)), ('copy_', lambda t, u: t.copy_(u)), ('physical.add_', lambda t, u: t.physical.add_(1.)),
           ('copy_ then write', lambda t, u: (t.copy_(u), t.physical.add_(1.)))]
    for pa in cat[tt]:
        for pb in cat[tt][:4]:
            for storage in ('contig', 'expanded', 'permuted'):
                if storage != 'contig' and len(pa[0]) < 2:
                    continue
                for name, f in ops:
                    for grad in ((False, True) if storage == 'contig' else (False,)):
                        key = (case, pa, pb, storage, name, grad)
                        try:
                            src = P.instantiate(pa, 1., storage=storage)
                            if grad:
                                src.physical.requires_grad_(True)      # e.g. factor weights that are being trained
                            other = P.instantiate(pb, 1., offset=3)
                            s0, o0 = snap_pt(src), snap_pt(other)
                            c = src.clone()
                            f(c, other)
                            r.trans += 1
                            if snap_pt(src) != s0:
                                r.bad('clone-aliases-source', 'indices.PatternedTensor.clone', 'inplace', '%s on a clone of %s (%s, requires_grad=%s) changed the source' % (name, P.show(pa), storage, grad), ('I', i), key)
                                continue
                            if snap_pt(other) != o0:
                                r.bad('clone-aliases-source', 'indices.PatternedTensor.' + name.split(' ')[0], 'inplace', '%s with argument %s changed the argument' % (name, P.show(pb)), ('I', i), key)
                                continue
                            r.ok(key, outcome='inplace', nontrivial=True)
                        except Exception as e:
                            if name in ('physical.add_', 'copy_ then write') and 'single memory location' in str(e):
                                r.ok(key, outcome='inplace-refused', nontrivial=False)
                            else:
                                r.exc(e, 'inplace', ('I', i), key)


def inplace_mt(r, case):
    import torch
    from fggs.multi import MultiTensor
    from fggs.indices import PatternedTensor, PhysicalAxis
    S = IR.semiring('real', 'float64')
    shapes = {'x': torch.Size([2]), 'y': torch.Size([]), 'z': torch.Size([2, 2])}

    def mk(sel, off):
        m = MultiTensor(shapes, S)
        if 'x' in sel:
            m['x'] = PatternedTensor(torch.tensor([1. + off, 2.], dtype=torch.float64))
        if 'y' in sel:
            m['y'] = PatternedTensor(torch.tensor(3. + off, dtype=torch.float64))
        if 'z' in sel:
            k = PhysicalAxis(2)
            m['z'] = PatternedTensor(torch.tensor([4. + off, 5.], dtype=torch.float64), (k,), (k, k), 0.)
        return m

    def snap(m):
        return tuple((k, snap_pt(v)) for k, v in m.items())
    ops = [('copy_', lambda a, b: a.copy_(b)), ('iadd', lambda a, b: a.__iadd__(b)), ('isub', lambda a, b: a.__isub__(b)), ('maximum_', lambda a, b: a.maximum_(b)),
           ('add', lambda a, b: a + b), ('sub', lambda a, b: a - b), ('clone', lambda a, b: a.clone())]
    subsets = [(), ('x',), ('y', 'z'), ('x', 'y', 'z')]
    for sa in subsets:
        for sb in subsets:
            for name, f in ops:
                key = (case, sa, sb, name)
                try:
                    src, other = mk(sa, 0.), mk(sb, 10.)
                    s0, o0 = snap(src), snap(other)
                    c = src.clone()
                    res = f(c, other)
                    if snap(other) != o0:
                        r.bad('argument-mutated', 'multi.MultiTensor.' + name, 'inplace', 'MultiTensor %s (keys %r, argument keys %r) changed its argument' % (name, sa, sb), ('MT',), key)
                        continue
                    tgt = res if isinstance(res, MultiTensor) else c
                    # writing into the result must not reach the source or the argument
                    for k, v in tgt.items():
                        try:
                            v.physical.add_(1.)
                        except RuntimeError:
                            pass
                    r.trans += 1
                    if snap(src) != s0:
                        r.bad('clone-aliases-source', 'multi.MultiTensor.clone', 'inplace', 'MultiTensor %s on a clone (keys %r, argument keys %r) changed the source' % (name, sa, sb), ('MT',), key)
                    elif name in ('copy_', 'clone') and snap(other) != o0:
                        r.bad('clone-aliases-source', 'multi.MultiTensor.' + name, 'inplace', 'MultiTensor %s (keys %r, argument keys %r): the copy shares storage with what it was copied from' % (name, sa, sb), ('MT',), key)
                    else:
                        r.ok(key, outcome='mt-' + name, nontrivial=True)
                except Exception as e:
                    r.exc(e, 'inplace', ('MT',), key)
