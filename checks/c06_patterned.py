"""C06 — patterned tensors behave exactly like the dense tensors they denote."""
import itertools, math, warnings
from mc.core import Res, exc_kind, exc_site, h8
from mc import patterns as P, ptinv

PID = 'C06'
LEVEL = 'model_checking'
RULE = ('type-directed catalogue of patterned tensors (11 index types: atoms, products, sums, nestings; every pattern '
        'with <= 2 physical axes incl. shared axes; <= 2 dims) x defaults {0,1,5,-inf,inf,nan} x storage {contiguous, '
        'permuted view, stride-0 view}: (1) every unary / scalar / structural operation, indexing at every index tuple, '
        'iteration, tolist, every reshape/view to every factorisation of numel; (2) every binary / ternary operation on '
        'every ordered pair of same-typed patterns x default pairs; (3) explicit-state BFS of the product machine '
        '<patterned, dense> over an operation alphabet (depth 2 unary, then binary on pairs of reached states, then '
        'structural), states deduplicated on (axes up to renaming, default, physical values, strides); oracle = the same '
        'torch operation on to_dense(); the representation invariant is asserted on every PatternedTensor the library '
        'constructs. states/transitions count the product-machine search; evaluations count all judged operations.')
ASSUMPTIONS = ['torch is the trusted base for dense semantics', 'operands of different index types are out of scope',
               'IEEE-special defaults: operations that do arithmetic on the default with Python math are judged only for '
               'defaults where Python and IEEE agree (listed per operation in the check source)']
CHUNK = 2
CASE_TIMEOUT_S = 600.0     # a case is a block of patterns x all partners x default pairs x ~30 operations
inf, nan = math.inf, math.nan
DEFAULTS = (0., 1., 5., -inf, inf, nan)


def bounds(tier):
    return {'types': 11, 'dims': 2, 'max_physical_axes': 2, 'numel_cap': 18,
            'composition_catalogue': 'TYPES_SMALL, unary depth %d + binary on the first %d states of each (shape, type) group + structural on the first %d results' % COMP[tier],
            'composition_unary_depth': COMP[tier][0], 'composition_group_cap': COMP[tier][1], 'composition_result_cap': COMP[tier][2]}


COMP = {'quick': (2, 14, 400), 'thorough': (3, 40, 4000)}


def gen_cases(tier, seed):
    cat = P.catalogue(2, 2, 18)
    for i, tt in enumerate(cat):
        yield ('U', i)
    for i, tt in enumerate(cat):
        n = len(cat[tt])
        for lo in range(0, n, 2):
            yield ('B', i, lo, min(n, lo + 2))
    cat2 = P.catalogue(2, 2, 12, P.TYPES_SMALL)
    for i, tt in enumerate(cat2):
        yield ('C', i) + COMP[tier]
    for n in (3, 4):
        for dims in (1, 2):
            yield ('K', n, dims)


def block_patterns(n, dims):
    """Contiguous-block patterns of an atom axis of size n: the whole axis, and every block b + X(m) + a (m = 1 is a
    one-hot).  Such patterns arise from indexing (t[i] of a diagonal) and from json weights; pairs with equal `before`
    and different `after` exercise the SumAxis cases of anti-unification."""
    out = []
    tail_p, tail_v = ((2,), (1,)) if dims == 2 else ((), ())
    out.append(((n,) + tail_p, (0,) + tail_v))
    for m in range(1, n):
        for b in range(0, n - m + 1):
            a = n - m - b
            if m == 1:
                out.append((tail_p, (('s', b, ('u',), a),) + tuple(v - 1 for v in tail_v)))
            else:
                out.append(((m,) + tail_p, (('s', b, 0, a),) + tail_v))
    return out


def describe(case):
    if case[0] == 'K':
        return {'part': 'block patterns on an atom axis', 'size': case[1], 'dims': case[2], 'patterns': [P.show(p) for p in block_patterns(case[1], case[2])]}
    cat = P.catalogue(2, 2, 18) if case[0] != 'C' else P.catalogue(2, 2, 12, P.TYPES_SMALL)
    tt = list(cat)[case[1]]
    return {'part': {'U': 'unary/structural', 'B': 'binary', 'C': 'compositions'}[case[0]], 'index_types': tt,
            'patterns': [P.show(p) for p in cat[tt]][:6], 'rest': list(case[2:])}


def eqn(a, b):
    import torch
    if isinstance(a, bool) or isinstance(b, bool):
        return a == b
    if tuple(a.shape) != tuple(b.shape) or a.dtype != b.dtype:
        return False
    if a.dtype.is_floating_point:
        return bool(torch.equal(a.isnan(), b.isnan())) and bool(torch.equal(a.nan_to_num(nan=0.), b.nan_to_num(nan=0.)))
    return bool(torch.equal(a, b))


def close(a, b):
    """As eqn, but finite values within 4 ulp: PatternedTensor.div may multiply by the reciprocal."""
    import torch
    if tuple(a.shape) != tuple(b.shape) or a.dtype != b.dtype:
        return False
    return bool(torch.allclose(a, b, rtol=1e-15 * 8, atol=0., equal_nan=True))


def finite(d):
    return d == d and abs(d) != inf


# (name, patterned fn, dense fn, predicate on the default: is the default in scope for this op?)
def unary_ops():
    import torch
    from fggs.indices import PatternedTensor
    ANY = lambda d: True
    ops = [
        ('abs', lambda t: t.abs(), lambda d: d.abs(), ANY),
        ('abs_', lambda t: t.clone().abs_(), lambda d: d.abs(), ANY),
        ('neg_', lambda t: t.clone().neg_(), lambda d: -d, ANY),
        ('exp', lambda t: t.exp(), lambda d: d.exp(), lambda d: d != d or d <= 5),
        ('log', lambda t: t.log(), lambda d: d.log(), lambda d: d != d or (d >= 0 and d != inf) or d == inf),
        ('log_', lambda t: t.clone().log_(), lambda d: d.log(), lambda d: d != d or d >= 0),
        ('relu_', lambda t: t.clone().relu_(), lambda d: d.relu(), lambda d: d == d),
        ('nan_to_num_', lambda t: t.clone().nan_to_num_(nan=-inf, posinf=inf, neginf=-inf), lambda d: d.nan_to_num(nan=-inf, posinf=inf, neginf=-inf), ANY),
        ('nan_to_num_default', lambda t: t.clone().nan_to_num_(), lambda d: d.nan_to_num(), ANY),
        ('nan_to_num_-zeros', lambda t: t.clone().nan_to_num_(nan=0., posinf=0., neginf=0.), lambda d: d.nan_to_num(nan=0., posinf=0., neginf=0.), ANY),
        ('nan_to_num_-mixed', lambda t: t.clone().nan_to_num_(nan=1., posinf=0., neginf=-2.), lambda d: d.nan_to_num(nan=1., posinf=0., neginf=-2.), ANY),
        ('clamp_min', lambda t: t.clamp_min(2.), lambda d: d.clamp_min(2.), lambda d: d == d),
        ('clamp_max', lambda t: t.clamp_max(2.), lambda d: d.clamp_max(2.), lambda d: d == d),
        ('lt', lambda t: t.lt(2.), lambda d: d.lt(2.), ANY), ('le', lambda t: t.le(2.), lambda d: d.le(2.), ANY),
        ('gt', lambda t: t.gt(2.), lambda d: d.gt(2.), ANY), ('ge', lambda t: t.ge(2.), lambda d: d.ge(2.), ANY),
        ('eq', lambda t: t.eq(2.), lambda d: d.eq(2.), ANY),
        ('add-scalar', lambda t: t.add(1.5), lambda d: d + 1.5, ANY), ('sub-scalar', lambda t: t.sub(1.), lambda d: d - 1., ANY),
        ('mul-scalar', lambda t: t.mul(2.), lambda d: d * 2., ANY), ('div-scalar', lambda t: t.div(2.), lambda d: d / 2., ANY),
        ('imul', lambda t: t.clone().__imul__(2.), lambda d: d * 2., ANY), ('itruediv', lambda t: t.clone().__itruediv__(2.), lambda d: d / 2., ANY),
        ('to-float32', lambda t: t.to(torch.float32), lambda d: d.to(torch.float32), ANY),
        # casts of values (and defaults) the target dtype cannot represent, followed by one more operation
        ('to-long-then-mul', lambda t: t.add(0.7).to(torch.long).mul(2), lambda d: (d + 0.7).to(torch.long) * 2, finite),
        ('to-long-then-eq', lambda t: t.add(0.7).to(torch.long).eq(1), lambda d: (d + 0.7).to(torch.long).eq(1), finite),
        ('to-bool-then-to-double', lambda t: t.add(1.7).to(torch.bool).to(torch.float64), lambda d: (d + 1.7).to(torch.bool).to(torch.float64), finite),
        ('to-float32-then-to-float64', lambda t: t.add(0.7).to(torch.float32).to(torch.float64).sub(0.5), lambda d: (d + 0.7).to(torch.float32).to(torch.float64) - 0.5, finite),
        # history: in-place operations on the results of indexing ANOTHER tensor (same default and dtype) come first
        ('getitem-keeps-dtype', lambda t: _getitem_dtypes(t), lambda d: torch.tensor(True), ANY),
        ('getitem-after-inplace-on-other-results', lambda t: _probe_getitem(t), lambda d: d, finite),
        ('T', lambda t: t.T, lambda d: d.permute(*reversed(range(d.ndim))), ANY),
        ('t', lambda t: t.t(), lambda d: d.t() if d.ndim == 2 else d, ANY),
        ('transpose', lambda t: t.transpose(0, t.ndim - 1), lambda d: d.transpose(0, d.ndim - 1), ANY),
        ('permute', lambda t: t.permute(tuple(reversed(range(t.ndim)))), lambda d: d.permute(*reversed(range(d.ndim))), ANY),
        ('flatten', lambda t: t.flatten(), lambda d: d.flatten(), ANY),
        ('unsqueeze0', lambda t: t.unsqueeze(0), lambda d: d.unsqueeze(0), ANY), ('unsqueeze1', lambda t: t.unsqueeze(1), lambda d: d.unsqueeze(1), ANY),
        ('unsqueeze-1', lambda t: t.unsqueeze(-1), lambda d: d.unsqueeze(-1), ANY),
        ('expand', lambda t: t.expand(2, *t.size()), lambda d: d.expand(2, *d.shape), ANY),
        ('repeat', lambda t: t.repeat(2, *t.size()), lambda d: d.expand(2, *d.shape), ANY),
        ('clone', lambda t: t.clone(), lambda d: d, ANY), ('detach', lambda t: t.detach(), lambda d: d, ANY),
        ('freshen', lambda t: t.freshen(), lambda d: d, ANY),
        ('default_to', lambda t: t.default_to(7.), lambda d: d, ANY),
        ('dim_to_dense0', lambda t: t.dim_to_dense(0), lambda d: d, ANY),
        ('dim_to_dense-last', lambda t: t.dim_to_dense(t.ndim - 1), lambda d: d, ANY),
        ('dim_to_dense-neg', lambda t: t.dim_to_dense(-1), lambda d: d, ANY),
        ('stack1-0', lambda t: _stack([t], 0), lambda d: torch.stack([d], 0), ANY),
        ('stack1-neg1', lambda t: _stack([t], -1), lambda d: torch.stack([d], -1), ANY),
        ('stack1-neg2', lambda t: _stack([t], -2), lambda d: torch.stack([d], -2), ANY),
        ('project-own-axes-reversed', lambda t: _project_own(t), lambda d: None, ANY),
        ('log_softmax0', lambda t: t.log_softmax(0), lambda d: d.log_softmax(0), finite),
        ('log_softmax-1', lambda t: t.log_softmax(-1), lambda d: d.log_softmax(-1), finite),
        ('tolist', lambda t: torch.tensor(t.tolist(), dtype=torch.float64).reshape(t.size()), lambda d: d, ANY),
        ('iter', lambda t: torch.stack([x.to_dense() for x in t]), lambda d: d, ANY),
        ('len', lambda t: torch.tensor(len(t)), lambda d: torch.tensor(len(d)), ANY),
        ('getitem0', lambda t: t[0], lambda d: d[0], ANY), ('getitem-last', lambda t: t[len(t) - 1], lambda d: d[-1], ANY),
        ('any0', lambda t: t.gt(2.5).any(0), lambda d: d.gt(2.5).any(0), ANY),
        ('any-keepdim', lambda t: t.gt(2.5).any(t.ndim - 1, True), lambda d: d.gt(2.5).any(d.ndim - 1, True), ANY),
        ('logical_not', lambda t: t.gt(2.5).logical_not(), lambda d: d.gt(2.5).logical_not(), ANY),
        ('equal_default', lambda t: t.equal_default(), lambda d: None, ANY),
    ]
    return ops


def _stack(ts, dim):
    from fggs.indices import stack
    return stack(ts, dim)


def _rev_products(e):
    from fggs.indices import ProductAxis, SumAxis, productAxis
    if isinstance(e, ProductAxis) and len(e.factors) >= 2:
        fs = [_rev_products(f) for f in e.factors]
        sizes = [f.numel() for f in fs]
        # only a reversal that keeps the index type (same factor sizes in the same positions) is a well-typed request
        return productAxis(list(reversed(fs))) if sizes == sizes[::-1] and all(isinstance(f, type(fs[0])) for f in fs) else productAxis(fs)
    if isinstance(e, SumAxis):
        return SumAxis(e.before, _rev_products(e.term), e.after)
    return e


def _project_own(t):
    """project onto t's OWN physical axes arranged differently (product factors reversed); compared with the same
    view taken from the dense tensor.  Returns a bool tensor so that the generic comparison applies."""
    import torch
    from fggs.indices import project
    vaxes = tuple(_rev_products(e) for e in t.vaxes)
    got = t.project(t.paxes, vaxes)
    want = project(t.to_dense(), t.paxes, vaxes, {})[0].clone()
    return torch.tensor(bool(got.shape == want.shape and torch.equal(got.isnan(), want.isnan()) and torch.equal(got.nan_to_num(nan=0.), want.nan_to_num(nan=0.))))


def _getitem_dtypes(t):
    """every full index tuple: the element keeps the tensor's dtype (float64 here), backed or not"""
    import torch
    idxs = list(itertools.product(*[range(n) for n in t.size()]))
    ok = all(t[vis].physical.dtype == t.physical.dtype for vis in idxs)
    rows_ok = all(t[i].physical.dtype == t.physical.dtype for i in range(t.size()[0])) if t.ndim else True
    return torch.tensor(bool(ok and rows_ok))


def _probe_getitem(t):
    import torch
    other = t.clone()
    idxs = list(itertools.product(*[range(n) for n in t.size()]))
    for vis in idxs:
        x = other[vis]
        try:
            x.neg_()
            x.__imul__(3.)
        except RuntimeError:
            pass
    if not idxs:
        return t
    vals = [t[vis] for vis in idxs]
    return torch.stack([v.to_dense() for v in vals]).reshape(tuple(t.size()))


def _sq(t):
    return t.ndim == 2 and t.shape[0] == t.shape[1]


def binary_ops():
    import torch
    from fggs.indices import stack
    ANY2 = lambda a, b: True
    arith = lambda a, b: True

    def lsm(x, dim):
        return x
    ops = [
        ('add', lambda a, b: a.add(b), lambda x, y: x + y, ANY2),
        ('sub', lambda a, b: a.sub(b), lambda x, y: x - y, ANY2),
        ('mul', lambda a, b: a.mul(b), lambda x, y: x * y, ANY2),
        ('div', lambda a, b: a.div(b), lambda x, y: x / y, lambda a, b: b != 0),
        ('maximum', lambda a, b: a.maximum(b), torch.maximum, lambda a, b: a == a and b == b),
        ('logaddexp', lambda a, b: a.logaddexp(b), torch.logaddexp, ANY2),
        ('lt', lambda a, b: a.lt(b), torch.lt, ANY2), ('le', lambda a, b: a.le(b), torch.le, ANY2),
        ('gt', lambda a, b: a.gt(b), torch.gt, ANY2), ('ge', lambda a, b: a.ge(b), torch.ge, ANY2),
        ('eq', lambda a, b: a.eq(b), torch.eq, ANY2),
        ('__mul__', lambda a, b: a * b, lambda x, y: x * y, ANY2), ('__add__', lambda a, b: a + b, lambda x, y: x + y, ANY2),
        ('__sub__', lambda a, b: a - b, lambda x, y: x - y, ANY2), ('__truediv__', lambda a, b: a / b, lambda x, y: x / y, lambda a, b: b != 0),
        ('imul-tensor', lambda a, b: a.clone().__imul__(b), lambda x, y: x * y, ANY2),
        ('itruediv-tensor', lambda a, b: a.clone().__itruediv__(b), lambda x, y: x / y, lambda a, b: b != 0),
        ('logical_or', lambda a, b: a.gt(2.5).logical_or(b.gt(3.5)), lambda x, y: x.gt(2.5).logical_or(y.gt(3.5)), ANY2),
        ('logical_and', lambda a, b: a.gt(2.5).logical_and(b.gt(3.5)), lambda x, y: x.gt(2.5).logical_and(y.gt(3.5)), ANY2),
        ('logical_or-not', lambda a, b: a.gt(2.5).logical_not().logical_or(b.gt(3.5)), lambda x, y: x.gt(2.5).logical_not().logical_or(y.gt(3.5)), ANY2),
        ('logical_and-not', lambda a, b: a.gt(2.5).logical_and(b.gt(3.5).logical_not()), lambda x, y: x.gt(2.5).logical_and(y.gt(3.5).logical_not()), ANY2),
        ('where-cond-b', lambda a, b: a.where(b.gt(3.), b), lambda x, y: x.where(y.gt(3.), y), ANY2),
        ('where-cond-a', lambda a, b: a.where(a.gt(3.), b), lambda x, y: x.where(x.gt(3.), y), ANY2),
        ('where-cond-not', lambda a, b: a.where(b.gt(3.).logical_not(), b), lambda x, y: x.where(y.gt(3.).logical_not(), y), ANY2),
        ('stack0', lambda a, b: stack([a, b], 0), lambda x, y: torch.stack([x, y], 0), lambda a, b: a == b or (a != a and b != b)),
        ('stack-1', lambda a, b: stack([a, b], -1), lambda x, y: torch.stack([x, y], -1), lambda a, b: a == b or (a != a and b != b)),
        ('bcast-row-left', lambda a, b: a[0].add(b), lambda x, y: x[0] + y, lambda a, b: True),
        ('bcast-row-right', lambda a, b: a.mul(b[0]), lambda x, y: x * y[0], lambda a, b: True),
        ('bcast-row-left-sub', lambda a, b: a[len(a) - 1].sub(b), lambda x, y: x[-1] - y, lambda a, b: True),
        ('bcast-unit-left', lambda a, b: a[0].unsqueeze(0).maximum(b), lambda x, y: torch.maximum(x[0].unsqueeze(0), y), lambda a, b: a == a and b == b),
        ('bcast-unit-left-clone', lambda a, b: a[0].unsqueeze(0).clone().add(b), lambda x, y: x[0].unsqueeze(0) + y, lambda a, b: True),
        ('bcast-unit-right-clone', lambda a, b: a.lt(b[0].unsqueeze(0).clone()), lambda x, y: x.lt(y[0].unsqueeze(0)), lambda a, b: True),
        # an operand together with its own transpose (same physical axes, other virtual order); square matrices only
        ('own-transpose-add', lambda a, b: a.add(a.T if _sq(a) else a), lambda x, y: x + (x.T if _sq(x) else x), lambda a, b: True),
        ('own-transpose-maximum', lambda a, b: (a.T if _sq(a) else a).maximum(a), lambda x, y: torch.maximum(x.T if _sq(x) else x, x), lambda a, b: a == a and b == b),
        ('own-transpose-where', lambda a, b: a.where((a.T if _sq(a) else a).gt(3.), b), lambda x, y: x.where((x.T if _sq(x) else x).gt(3.), y), lambda a, b: True),
        ('bcast-where', lambda a, b: a[0].where(b.gt(3.), b), lambda x, y: x[0].where(y.gt(3.), y), lambda a, b: True),
        ('expand_as', lambda a, b: a.unsqueeze(0).expand_as(b.unsqueeze(0).expand(3, *b.size())), lambda x, y: x.unsqueeze(0).expand(3, *y.shape), ANY2),
    ]
    return ops


def bad(r, kind, opname, msg, case, key):
    r.bad(kind, 'indices.PatternedTensor', opname, msg, case, key)


def run_case(case):
    import torch
    warnings.simplefilter('error')      # a type-mismatch warning inside the "well-typed" scope is a finding too
    ptinv.install()
    r = Res()
    try:
        if case[0] == 'U':
            part_unary(case, r)
        elif case[0] == 'B':
            part_binary(case, r)
        elif case[0] == 'C':
            part_comp(case, r)
        elif case[0] == 'K':
            pats = block_patterns(case[1], case[2])
            ops = [o for o in binary_ops() if o[0] not in ('expand_as',)]
            for pa in pats:
                for pb in pats:
                    for da, db in ((0., 0.), (0., 1.), (1., 5.), (-inf, -inf), (5., 0.)):
                        one_binary(pa, pb, da, db, ops, r, extras=(da, db) == (0., 0.), warn_excl=True)
        elif case[0] == 'U1':
            _, p, d, storage, opname = case
            one_unary(p, d, storage, [o for o in unary_ops() if o[0] == opname], r, reshape=(opname in ('reshape', 'view', 'getitem-all')))
        elif case[0] == 'B1':
            _, pa, pb, da, db, opname = case
            one_binary(pa, pb, da, db, [o for o in binary_ops() if o[0] == opname], r, extras=opname.startswith('x-'))
    finally:
        warnings.simplefilter('ignore')
    return r


def part_unary(case, r):
    cat = P.catalogue(2, 2, 18)
    tt = list(cat)[case[1]]
    ops = unary_ops()
    for p in cat[tt]:
        for d in DEFAULTS:
            for storage in ('contig', 'permuted', 'expanded'):
                if storage != 'contig' and (len(p[0]) < 2 or d not in (0., 1.)):
                    continue
                one_unary(p, d, storage, ops, r, reshape=(d in (0., 5.) and storage == 'contig'))


def factorizations(n, maxlen=3):
    out = set()

    def rec(rem, acc):
        if len(acc) > maxlen:
            return
        if rem == 1 and acc:
            out.add(tuple(acc))
        if len(acc) == maxlen:
            return
        for k in range(1, rem + 1):
            if rem % k == 0 and (k > 1 or acc.count(1) < 1):
                rec(rem // k, acc + [k])
    rec(n, [])
    return sorted(out)


def mergeable(a, b):
    """b is obtained from a by merging adjacent dims and inserting/removing size-1 dims."""
    a = [x for x in a if x != 1]
    b = [x for x in b if x != 1]
    i = 0
    for x in b:
        p = 1
        while i < len(a) and p < x:
            p *= a[i]
            i += 1
        if p != x:
            return False
    return i == len(a)


def one_unary(p, d, storage, ops, r, reshape):
    import torch
    from fggs.indices import PatternedTensor
    desc = '%s default %r %s' % (P.show(p), d, storage)
    for name, f, g, ok in ops:
        if not ok(d):
            r.excl['IEEE-special default for ' + name] += 1
            continue
        sub = ('U1', p, d, storage, name)
        key = sub
        try:
            t = P.instantiate(p, d, storage=storage)
            dense0 = t.to_dense()
            if not eqn(dense0, P.dense_of(p, d, storage=storage)):
                bad(r, 'to_dense-mismatch', 'to_dense', '%s: to_dense %r, denotation %r' % (desc, dense0.tolist(), P.dense_of(p, d, storage=storage).tolist()), sub, key)
                return
            res = f(t)
            if name == 'equal_default':
                want = bool(torch.equal(t.physical.isnan(), torch.full_like(t.physical, d).isnan()) and (t.physical == d).all()) if d == d else False
                got = res
                if bool(got) != bool((t.physical == d).all()):
                    bad(r, 'mismatch', name, '%s: equal_default=%r' % (desc, got), sub, key)
                else:
                    r.ok(key, outcome=name)
                continue
            exp = g(dense0) if name != 'project-own-axes-reversed' else torch.tensor(True)
            rd = res.to_dense() if isinstance(res, PatternedTensor) else res
            if not eqn(rd, exp):
                bad(r, 'mismatch', name, '%s: %s gives %r, torch gives %r' % (desc, name, rd.tolist(), exp.tolist()), sub, key)
                continue
            if name.endswith('_') and isinstance(res, PatternedTensor):
                pass
            # the source is untouched by out-of-place ops and by ops applied to a clone
            if not eqn(t.to_dense(), dense0):
                bad(r, 'source-modified', name, '%s: %s changed its operand' % (desc, name), sub, key)
                continue
            r.ok(key, outcome=name, nontrivial=True)
        except ptinv.RepInvariantError as e:
            bad(r, 'representation-invariant', name, '%s: %s' % (desc, e), sub, key)
        except Warning as w:
            bad(r, 'type-mismatch-warning', name, '%s: %s' % (desc, str(w)[:200]), sub, key)
        except Exception as e:
            r.exc(e, name, sub, key, msg='%s: %s raised %s: %s' % (desc, name, type(e).__name__, str(e)[:200]))
    if not reshape:
        return
    # reshape / view to every factorisation; indexing at every index tuple
    try:
        t = P.instantiate(p, d, storage=storage)
        dense0 = t.to_dense()
    except Exception as e:
        r.exc(e, 'instantiate', ('U1', p, d, storage, 'reshape'))
        return
    for shp in factorizations(dense0.numel()):
        shapes = [shp] + [tuple(-1 if j == i else s for j, s in enumerate(shp)) for i in range(len(shp))]
        for target in shapes:
            for nm in ('reshape', 'view'):
                sub = ('U1', p, d, storage, nm)
                key = ('U1', p, d, storage, nm, target)
                try:
                    res = getattr(t, nm)(*target)
                    if not eqn(res.to_dense(), dense0.reshape(shp)):
                        bad(r, 'mismatch', nm, '%s: %s%r differs from dense reshape' % (desc, nm, target), sub, key)
                    else:
                        r.ok(key, outcome=nm + '-ok')
                except RuntimeError as e:
                    if nm == 'reshape' and mergeable(list(dense0.shape), list(shp)):
                        bad(r, 'reshape-refused', nm, '%s: reshape%r only merges adjacent dims / adds or drops size-1 dims but raised: %s' % (desc, target, str(e)[:120]), sub, key)
                    else:
                        r.ok(key, outcome=nm + '-refused', nontrivial=False)
                except ptinv.RepInvariantError as e:
                    bad(r, 'representation-invariant', nm, '%s: %s' % (desc, e), sub, key)
                except Warning as w:
                    r.ok(key, outcome=nm + '-warned', nontrivial=False)
                except Exception as e:
                    r.exc(e, nm, sub, key)
    for k in range(1, dense0.ndim + 1):
        for vis in itertools.product(*[range(s) for s in dense0.shape[:k]]):
            key = ('U1', p, d, storage, 'getitem', vis)
            try:
                res = t[vis] if k > 1 else t[vis[0]]
                if not eqn(res.to_dense(), dense0[vis]):
                    bad(r, 'mismatch', 'getitem', '%s: t%r = %r, dense %r' % (desc, vis, res.to_dense().tolist(), dense0[vis].tolist()), ('U1', p, d, storage, 'getitem-all'), key)
                else:
                    r.ok(key, outcome='getitem')
            except Exception as e:
                r.exc(e, 'getitem', ('U1', p, d, storage, 'getitem-all'), key)


DPAIRS = ((0., 0.), (0., 1.), (1., 0.), (1., 1.), (5., 0.), (1., 5.), (5., 5.), (1., inf), (-inf, -inf), (-inf, 0.), (inf, 1.), (nan, 0.), (0., nan))


def part_binary(case, r):
    cat = P.catalogue(2, 2, 18)
    tt = list(cat)[case[1]]
    ops = binary_ops()
    l = cat[tt]
    for pa in l[case[2]:case[3]]:
        for pb in l:
            for da, db in DPAIRS:
                one_binary(pa, pb, da, db, ops, r, extras=(da, db) in ((0., 0.), (5., 0.), (0., 1.)))


def one_binary(pa, pb, da, db, ops, r, extras, warn_excl=False):
    import torch
    from fggs.indices import PatternedTensor, project
    desc = '%s default %r  vs  %s default %r' % (P.show(pa), da, P.show(pb), db)
    for name, f, g, ok in ops:
        if not ok(da, db):
            r.excl['IEEE-special default for ' + name] += 1
            continue
        sub = ('B1', pa, pb, da, db, name)
        key = sub
        try:
            a = P.instantiate(pa, da)
            b = P.instantiate(pb, db, offset=3)
            x, y = a.to_dense(), b.to_dense()
            res = f(a, b)
            exp = g(x, y)
            rd = res.to_dense() if isinstance(res, PatternedTensor) else res
            if not (close(rd, exp) if 'div' in name else eqn(rd, exp)):
                bad(r, 'mismatch', name, '%s: %s gives %r, torch gives %r' % (desc, name, rd.tolist(), exp.tolist()), sub, key)
                continue
            if not eqn(a.to_dense(), x) or not eqn(b.to_dense(), y):
                bad(r, 'source-modified', name, '%s: %s changed an operand' % (desc, name), sub, key)
                continue
            r.ok(key, outcome=name, nontrivial=True)
        except ptinv.RepInvariantError as e:
            bad(r, 'representation-invariant', name, '%s: %s' % (desc, e), sub, key)
        except Warning as w:
            if (name.startswith('bcast') or name.startswith('own-transpose') or warn_excl) and 'antiunify' not in str(w):
                # a one-hot row produced by __getitem__ on a product-typed axis meets a product pattern: the library
                # itself declares this an index type mismatch, i.e. outside the well-typed scope
                r.excl['composition leaves the well-typed scope (library warning)'] += 1
            else:
                bad(r, 'type-mismatch-warning', name, '%s: %s' % (desc, str(w)[:200]), sub, key)
        except Exception as e:
            r.exc(e, name, sub, key, msg='%s: %s raised %s: %s' % (desc, name, type(e).__name__, str(e)[:200]))
    if not extras:
        return
    # copy_, project, where with an independent condition pattern, in-place aliasing
    for name in ('x-copy_', 'x-project', 'x-where3'):
        sub = ('B1', pa, pb, da, db, name)
        key = sub
        try:
            a = P.instantiate(pa, da)
            b = P.instantiate(pb, db, offset=3)
            x, y = a.to_dense(), b.to_dense()
            if name == 'x-copy_':
                okk = True
                for dst_storage in ('clone', 'expanded', 'permuted'):
                    if dst_storage != 'clone' and len(pa[0]) < 2:
                        continue
                    c = a.clone() if dst_storage == 'clone' else P.instantiate(pa, da, storage=dst_storage)
                    b = P.instantiate(pb, db, offset=3)
                    c.copy_(b)
                    okk = eqn(c.to_dense(), y) and eqn(b.to_dense(), y) and eqn(a.to_dense(), x)
                    if okk:
                        # in-place operations on the copy must not reach the source, and vice versa
                        c.neg_()
                        okk = eqn(b.to_dense(), y) and eqn(c.to_dense(), -y)
                    if okk:
                        b.abs_().neg_()
                        okk = eqn(c.to_dense(), -y)
                    if not okk:
                        break
                if not okk:
                    bad(r, 'mismatch', name, '%s: copy_ (destination storage %s) is wrong or shares storage with its source' % (desc, dst_storage), sub, key)
                    continue
            elif name == 'x-project':
                paxes, vaxes = P.build_axes(pb)
                got = a.project(paxes, vaxes)
                want = project(x, paxes, vaxes, {})[0]
                if not eqn(got, want.clone()):
                    bad(r, 'mismatch', name, '%s: project gives %r, dense view %r' % (desc, got.tolist(), want.tolist()), sub, key)
                    continue
            else:
                for cd in (False, True):
                    cond = PatternedTensor(b.physical.remainder(2).eq(0), b.paxes, b.vaxes, cd).freshen()
                    res = a.where(cond, b)
                    if not eqn(res.to_dense(), x.where(cond.to_dense(), y)):
                        bad(r, 'mismatch', name, '%s: where(cond default %r) differs from torch' % (desc, cd), sub, key)
                        break
                    cond2 = PatternedTensor(a.physical.remainder(2).eq(0), a.paxes, a.vaxes, cd)
                    res = a.where(cond2, b)
                    if not eqn(res.to_dense(), x.where(cond2.to_dense(), y)):
                        bad(r, 'mismatch', name, '%s: where(cond sharing axes with t, default %r) differs from torch' % (desc, cd), sub, key)
                        break
                else:
                    r.ok(key, outcome=name)
                continue
            r.ok(key, outcome=name, nontrivial=True)
        except ptinv.RepInvariantError as e:
            bad(r, 'representation-invariant', name, '%s: %s' % (desc, e), sub, key)
        except Warning as w:
            if warn_excl and 'antiunify' not in str(w):
                r.excl['composition leaves the well-typed scope (library warning)'] += 1
            else:
                bad(r, 'type-mismatch-warning', name, '%s: %s' % (desc, str(w)[:200]), sub, key)
        except Exception as e:
            r.exc(e, name, sub, key, msg='%s: %s raised %s: %s' % (desc, name, type(e).__name__, str(e)[:200]))


# ---------------------------------------------------------------------------------------------
# compositions: product machine <patterned, dense>

def pt_key(t):
    names = {}
    for k in t.paxes:
        names[id(k)] = len(names)

    def s(e):
        from fggs.indices import PhysicalAxis, ProductAxis, SumAxis
        if isinstance(e, PhysicalAxis):
            return ('x', names.get(id(e), -1), e._numel)
        if isinstance(e, ProductAxis):
            return ('p', tuple(s(f) for f in e.factors))
        return ('s', e.before, s(e.term), e.after)
    return (tuple(s(e) for e in t.vaxes), repr(t.default), repr(t.physical.tolist()), tuple(t.physical.stride()), str(t.physical.dtype))


def comp_unary():
    ops = [('T', lambda t: t.T, lambda d: d.permute(*reversed(range(d.ndim)))),
           ('neg_', lambda t: t.clone().neg_(), lambda d: -d),
           ('add1', lambda t: t.add(1.), lambda d: d + 1.),
           ('flatten', lambda t: t.flatten(), lambda d: d.flatten()),
           ('unsqueeze0', lambda t: t.unsqueeze(0), lambda d: d.unsqueeze(0)),
           ('getitem0', lambda t: t[0], lambda d: d[0]),
           ('dim_to_dense0', lambda t: t.dim_to_dense(0), lambda d: d),
           ('expand2', lambda t: t.expand(2, *t.size()), lambda d: d.expand(2, *d.shape)),
           ('clone', lambda t: t.clone(), lambda d: d.clone())]
    return ops


def comp_binary():
    import torch
    return [('add', lambda a, b: a.add(b), lambda x, y: x + y), ('mul', lambda a, b: a.mul(b), lambda x, y: x * y),
            ('sub', lambda a, b: a.sub(b), lambda x, y: x - y), ('maximum', lambda a, b: a.maximum(b), torch.maximum),
            ('lt', lambda a, b: a.lt(b), torch.lt), ('where', lambda a, b: a.where(b.gt(2.), b), lambda x, y: x.where(y.gt(2.), y)),
            ('equal', lambda a, b: a.equal(b), lambda x, y: bool(torch.equal(x, y)))]


def comp_struct():
    return [('T', lambda t: t.T, lambda d: d.permute(*reversed(range(d.ndim)))),
            ('flatten', lambda t: t.flatten(), lambda d: d.flatten()),
            ('sum-any', lambda t: t.gt(1.).any(0), lambda d: d.gt(1.).any(0)),
            ('getitem0', lambda t: t[0], lambda d: d[0]),
            ('reshape-1', lambda t: t.reshape(-1), lambda d: d.reshape(-1)),
            ('tolist', lambda t: t.tolist(), lambda d: d.tolist()),
            ('clone', lambda t: t.clone(), lambda d: d)]


def part_comp(case, r):
    import torch
    from fggs.indices import PatternedTensor
    cat = P.catalogue(2, 2, 12, P.TYPES_SMALL)
    tt = list(cat)[case[1]]
    un, bi, st = comp_unary(), comp_binary(), comp_struct()
    depth, gcap, rcap = case[2:5] if len(case) >= 5 else COMP['quick']
    ccase = ('C', case[1], depth, gcap, rcap)
    # level 0: all patterns x defaults {0,1}
    states = {}
    frontier = []
    for p in cat[tt]:
        for d in (0., 1.):
            t = P.instantiate(p, d)
            k = pt_key(t)
            if k not in states:
                states[k] = (t, t.to_dense(), ('init', P.show(p), d))
                frontier.append(k)
    # results of an einsum keep (partly renamed) axes of their inputs: the outer product of each initial vector with itself
    from fggs.indices import einsum as _einsum
    from fggs.semirings import RealSemiring
    for k in list(frontier):
        t, d, hist = states[k]
        if t.ndim == 1 and t.physical.dtype == torch.float64 and d.numel() <= 4:
            try:
                o = _einsum([t, t], [('i',), ('j',)], ('i', 'j'), RealSemiring(dtype=torch.float64))
            except Warning:
                continue
            O = torch.outer(d, d).nan_to_num(nan=0.)          # 0 * inf = 0 in the semiring
            if not eqn(o.to_dense(), O):
                continue       # einsum itself is C07's business
            k2 = pt_key(o)
            if k2 not in states:
                states[k2] = (o, O, hist + ('outer-self',))
                frontier.append(k2)
    r.states += len(states)

    def apply(name, f, g, args, dargs, hist):
        r.trans += 1
        try:
            res = f(*args)
            exp = g(*dargs)
        except ptinv.RepInvariantError as e:
            bad(r, 'representation-invariant', name, 'composition %r: %s' % (hist, e), ccase, ('C', hist))
            return None
        except Warning as w:
            r.excl['composition leaves the well-typed scope (warning)'] += 1
            return None
        except RuntimeError as e:
            if name.startswith('reshape'):
                return None
            r.exc(e, name, ccase, ('C', hist))
            return None
        except Exception as e:
            r.exc(e, name, ccase, ('C', hist), msg='composition %r raised %s: %s' % (hist, type(e).__name__, str(e)[:160]))
            return None
        if isinstance(res, PatternedTensor):
            rd = res.to_dense()
            if not eqn(rd, exp):
                bad(r, 'mismatch', name, 'composition %r gives %r, torch gives %r' % (hist, rd.tolist(), exp.tolist()), ccase, ('C', hist))
                return None
            r.ok(None, outcome=None, nontrivial=False)
            return res, exp
        if res != exp:
            bad(r, 'mismatch', name, 'composition %r gives %r, torch gives %r' % (hist, res, exp), ccase, ('C', hist))
        else:
            r.ok(None, nontrivial=False)
        return None
    # two levels of unary ops
    for level in range(depth):
        nxt = []
        for k in frontier:
            t, d, hist = states[k]
            if t.ndim == 0:
                continue
            for name, f, g in un:
                if name in ('getitem0',) and len(t) == 0:
                    continue
                out = apply(name, f, g, (t,), (d,), hist + (name,))
                if out is None:
                    continue
                k2 = pt_key(out[0])
                if k2 not in states:
                    states[k2] = (out[0], out[1], hist + (name,))
                    nxt.append(k2)
                    r.states += 1
        frontier = nxt
    # binary ops on all pairs of reached states of equal shape *and equal index types* (same history shape ops)
    byshape = {}
    for k, (t, d, hist) in states.items():
        byshape.setdefault((tuple(d.shape), tuple(h for h in hist[3:] if h in ('T', 'flatten', 'unsqueeze0', 'getitem0', 'expand2'))), []).append(k)
    results = []
    for grp in byshape.values():
        if len(grp) > gcap:
            r.excl['composition group beyond the cap (binary ops not applied)'] += len(grp) - gcap
        grp = grp[:gcap]
        for ka in grp:
            for kb in grp:
                ta, da, ha = states[ka]
                tb, db, hb = states[kb]
                for name, f, g in bi:
                    out = apply(name, f, g, (ta, tb), (da, db), (ha, name, hb))
                    if out is not None and len(results) < rcap:
                        results.append((out[0], out[1], (ha, name, hb)))
    for t, d, hist in results:
        if t.ndim == 0:
            continue
        for name, f, g in st:
            apply(name, f, g, (t,), (d,), (hist, name))
    r.nt.append(('C', case[1], len(states)))
