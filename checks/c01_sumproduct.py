"""C01 — non-recursive sum-product equals its definition."""
import itertools, math
from fractions import Fraction
from mc.core import Res, exc_kind, exc_site
from mc import ir as IR, oracles

PID = 'C01'
LEVEL = 'exploration'
RULE = ('(A) every single-rule FGG S -> shape for all shapes up to isomorphism in Shapes(3,2,2), Shapes(2,3,2), '
        'Shapes(2,5,2) (hub nodes with up to 10 attachments) and Shapes(3,2,2) over two node labels, x every '
        'assignment of terminal names (same factor used twice vs two factors of one type) x domain sizes {0,1,2,3} x '
        '[generic prime weights under {Real,Log,Viterbi,Bool} x {float32,float64} x {fixed-point,newton,linear}; '
        'every single-entry deviation to 0 / inf / 1 under the 4 semirings] ; observed through sum_product, '
        'sum_products and singleton_fgg(factor graph); (B) every non-recursive grammar of a bounded family over S, X, Y '
        '(rule-less, unproductive and unreachable nonterminals, several rules per nonterminal), every entry of '
        'sum_products. Oracle: exact rational evaluation of the definition (0*inf=0). Non-trivial = grammar whose '
        'start value is not all-zero; distinct by grammar+weights.')
ASSUMPTIONS = ['CPU only', 'float64 results within rtol 1e-9 / atol 1e-12 of the exact value (float32: 1e-4 / 1e-6); structure '
               '(shape, zeros, infinities) exact']
CHUNK = 8
SEMS = ('real', 'log', 'viterbi', 'bool')
METHODS = ('fixed-point', 'newton', 'linear')


def bounds(tier):
    if tier == 'quick':
        return {'A_shapes': [(3, 2, 2), (2, 3, 2)], 'A_hub': (2, 5, 2), 'A_two_labels': (3, 2, 2), 'domain_sizes': [1, 2, 3],
                'deviations': '1 entry -> 0/inf/1, domain sizes 1-2', 'B': 'S 1 rule; X 0-2 rules; Y 0-2 rules (reduced sets)'}
    return {'A_shapes': [(3, 3, 2), (2, 4, 2)], 'A_hub': (2, 5, 2), 'A_two_labels': (3, 2, 2), 'domain_sizes': [1, 2, 3],
            'deviations': 1, 'B': 'S 1-2 rules; X 0-2 rules of 16; Y 0-2 rules of 8'}


def gen_cases(tier, seed):
    b = bounds(tier)
    seen = set()
    for fam in b['A_shapes']:
        for sh in IR.shapes(*fam, ('T',), 2):
            if sh not in seen:
                seen.add(sh)
                yield ('A', sh, 'full', tier)
    for sh in IR.shapes(*b['A_hub'], ('T',), 2):
        if sh not in seen and len(sh[1]) >= 4:
            seen.add(sh)
            yield ('A', sh, 'hub', tier)
    for sh in IR.shapes(*b['A_two_labels'], ('T', 'U'), 2):
        if 'U' in sh[0] and 'T' in sh[0]:
            yield ('A', sh, 'two-labels', tier)
    for g in family_b(tier):
        yield ('B', g)
    for i in range(len(family_c())):
        yield ('C', i)


def describe(case):
    if case[0] == 'A':
        return {'family': 'A', 'shape': {'node_labels': case[1][0], 'edges': case[1][1], 'ext': case[1][2]}, 'mode': case[2]}
    if case[0] == 'B':
        return {'family': 'B', 'rules': case[1]['rules']}
    return {'single': list(case)}


# ---------------------------------------------------------------------------------------------
# family B

def rule_shapes_b(arity, lower):
    """rules with <= 2 nodes, <= 2 edges; an edge is a terminal (named by arity) or a lower nonterminal."""
    out = {}
    for n in range(arity, 3):
        cand = [('t0', ())] + [('t%d' % k, a) for k in (1, 2) for a in itertools.product(range(n), repeat=k)]
        for nt, ar in lower:
            cand += [(nt, a) for a in itertools.product(range(n), repeat=ar)]
        for e in range(0, 3):
            for edges in itertools.combinations_with_replacement(cand, e):
                for ext in itertools.permutations(range(n), arity):
                    best = None
                    for p in itertools.permutations(range(n)):
                        key = (n, tuple(p[v] for v in ext), tuple(sorted((l, tuple(p[v] for v in a)) for l, a in edges)))
                        if best is None or key < best:
                            best = key
                    out[best] = None
    return sorted(out, key=lambda s: (s[0], len(s[2]), s))


def family_b(tier):
    NTS = {'S': (), 'X': ('T',), 'Y': ('T',)}
    RS = rule_shapes_b(0, [('X', 1), ('Y', 1)])
    RX = rule_shapes_b(1, [('Y', 1)])
    RY = rule_shapes_b(1, [])
    nx, ny = (10, 5) if tier == 'quick' else (16, 8)
    xs = [()] + [(x,) for x in RX] + list(itertools.combinations(RX[:nx], 2))
    ys = [()] + [(y,) for y in RY[:20]] + list(itertools.combinations(RY[:ny], 2))
    if tier == 'quick':
        xs = [()] + [(x,) for x in RX[:24]] + list(itertools.combinations(RX[:nx], 2))
        ys = [()] + [(y,) for y in RY[:6]] + list(itertools.combinations(RY[:4], 2))
    for s in RS:
        if not any(l in NTS for l, a in s[2]):
            continue
        for xr in xs:
            for yr in ys:
                rules = []
                for nt, rs in (('S', (s,)), ('X', xr), ('Y', yr)):
                    for (n, ext, edges) in rs:
                        rules.append((nt, ('T',) * n, tuple(ext), tuple(edges)))
                yield {'start': 'S', 'nl': {'T': 2}, 'term': {'t0': (), 't1': ('T',), 't2': ('T', 'T')}, 'nt': dict(NTS), 'rules': rules}


# ---------------------------------------------------------------------------------------------

def weights_for(ir, wspec):
    kind = wspec[0]
    w = IR.generic_weights(ir, rot=wspec[1])
    if kind == 'dev2':
        shape_of = lambda name: IR.weight_shape(ir, name)
        w = IR.set_entry(w, wspec[2], tuple(0 for _ in shape_of(wspec[2])), IR.INF)
        w = IR.set_entry(w, wspec[3], tuple(0 for _ in shape_of(wspec[3])), Fraction(0))
    if kind == 'dev':
        pos = IR.positions(ir)
        name, idx = pos[wspec[2]]
        val = {'0': Fraction(0), 'inf': IR.INF, '1': Fraction(1)}[wspec[3]]
        w = IR.set_entry(w, name, idx, val)
    return w


def run_case(case):
    r = Res()
    if case[0] == 'A':
        family_a(case[1], case[2], r, case[3] if len(case) > 3 else 'quick')
    elif case[0] == 'B':
        fam_b_case(case[1], r)
    elif case[0] == 'C':
        ir = family_c()[case[1]]
        w = IR.generic_weights(ir)
        for name, kind in ir.get('patterned', {}).items():
            if kind == 'diag-one':    # off-diagonal entries are the (non-zero) default: one
                for idx in itertools.product(*[range(n) for n in IR.weight_shape(ir, name)]):
                    if len(set(idx)) > 1:
                        w = IR.set_entry(w, name, idx, Fraction(1))
            if kind == 'block':       # index 0 of every axis is structurally zero
                for idx in itertools.product(*[range(n) for n in IR.weight_shape(ir, name)]):
                    if 0 in idx:
                        w = IR.set_entry(w, name, idx, Fraction(0))
        for sem in ('real', 'log', 'bool', 'viterbi'):
            for dtype in ('float64', 'float32'):
                for method in ('fixed-point', 'newton'):
                    judge(ir, w, sem, dtype, method, r, ('C', case[1]))
    elif case[0] == 'A1':
        _, sh, names, dom, wspec, sem, dtype, method = case
        ir = mk_ir_a(sh, names, dom)
        judge(ir, weights_for(ir, wspec), sem, dtype, method, r, case, with_singleton=True)
    elif case[0] == 'B1':
        _, g, dom, sem, dtype = case
        ir = dict(g)
        ir['nl'] = {'T': dom}
        judge(ir, IR.generic_weights(ir), sem, dtype, 'fixed-point', r, case)
    return r


def mk_ir_a(sh, names, dom):
    labs = sh[0]
    nl = {'T': dom, 'U': (dom % 3 + 1 if dom else 2)} if 'U' in labs else {'T': dom}
    return IR.single_rule_ir(sh, names, nl)


def family_a(sh, mode, r, tier='quick'):
    from mc.core import seed
    rot = seed() % 7
    labs, edges, ext = sh
    for names in IR.label_assignments(labs, edges, 2):
        for dom in (0, 1, 2, 3):
            if mode == 'hub' and dom == 3 and sum(len(e) for e in edges) > 8:
                continue
            if dom == 0 and (mode == 'hub' or not labs):
                continue      # empty domains: every assignment-sum over a node is empty (value zero unless no node at all)
            ir = mk_ir_a(sh, names, dom)
            wg = ('generic', rot)
            if mode == 'hub':
                configs = [(s, 'float64', 'fixed-point') for s in SEMS]
            else:
                configs = [(s, 'float64', m) for s in SEMS for m in METHODS] + [(s, 'float32', m) for s in SEMS[:3] for m in (('fixed-point',) if dom != 2 else METHODS)]
            w = weights_for(ir, wg)
            for sem, dtype, method in configs:
                judge(ir, w, sem, dtype, method, r, ('A1', sh, names, dom, wg, sem, dtype, method), with_singleton=(method == 'fixed-point' and dtype == 'float64'))
            if mode == 'hub' or (dom == 3 and tier == 'quick'):
                continue
            npos = len(IR.positions(ir))
            for pi in range(npos):
                for val in ('0', 'inf', '1'):
                    wd = ('dev', rot, pi, val)
                    w = weights_for(ir, wd)
                    for sem in SEMS:
                        judge(ir, w, sem, 'float64', 'fixed-point', r, ('A1', sh, names, dom, wd, sem, 'float64', 'fixed-point'))
            # two deviations at once: an infinite weight in one factor meets a zero weight of another factor (0 x inf = 0);
            # every ordered pair of distinct terminals, at their all-zero index
            terms = sorted(set(n for n, _ in IR.positions(ir)))
            for t_inf in terms:
                for t_zero in terms:
                    if t_inf == t_zero:
                        continue
                    wd = ('dev2', rot, t_inf, t_zero)
                    w = weights_for(ir, wd)
                    for sem in SEMS:
                        judge(ir, w, sem, 'float64', 'fixed-point', r, ('A1', sh, names, dom, wd, sem, 'float64', 'fixed-point'))


def family_c():
    """Hand-picked structures outside families A and B.
    (1) a start symbol with three external nodes whose order differs from the order in which the edges mention them,
        above a binary nonterminal whose own external nodes carry no edge / only a nullary factor / one unary factor
        (broadcast, stride-0 values re-inserted into the output);
    (2) a factor stored as a block pattern (no bare physical axis among its virtual axes) used twice in one rule, and
        next to a nonterminal computed from it."""
    out = []
    T3 = ('T', 'T', 'T')
    for dom in (2, 3):
        for ext in itertools.permutations(range(3)):
            for yatt in ((0, 1), (1, 0)):
                for body in ((), (('t0', ()),), (('t1', (0,)),), (('t1', (1,)),)):
                    out.append({'start': 'S', 'nl': {'T': dom}, 'term': {'t0': (), 't1': ('T',), 'h': ('T',)}, 'nt': {'S': T3, 'Y': ('T', 'T')},
                                'rules': [('S', T3, tuple(ext), (('Y', yatt), ('h', (2,)))), ('Y', ('T', 'T'), (0, 1), body)]})
        for sext in ((0, 2), (2, 0), ()):
            base = {'start': 'S', 'nl': {'T': dom}, 'term': {'f': ('T', 'T')}, 'patterned': {'f': 'block'}}
            out.append(dict(base, nt={'S': tuple('T' for _ in sext)}, rules=[('S', T3, sext, (('f', (0, 1)), ('f', (1, 2))))]))
            out.append(dict(base, nt={'S': tuple('T' for _ in sext)}, rules=[('S', T3, sext, (('f', (0, 1)), ('f', (2, 1))))]))
            out.append(dict(base, nt={'S': tuple('T' for _ in sext), 'X': ('T', 'T')},
                            rules=[('S', T3, sext, (('X', (0, 1)), ('f', (1, 2)))), ('X', ('T', 'T'), (0, 1), (('f', (0, 1)),))]))
            out.append(dict(base, nt={'S': tuple('T' for _ in sext), 'X': ('T', 'T')},
                            rules=[('S', T3, sext, (('X', (1, 0)), ('f', (1, 2)), ('f', (0, 2)))), ('X', ('T', 'T'), (0, 1), (('f', (1, 0)),))]))
    # (3) a coupling factor stored as its diagonal with default ONE (off-diagonal weight 1), directly and through a nonterminal
    for dom in (2, 3):
        base = {'start': 'S', 'nl': {'T': dom}, 'term': {'f': ('T', 'T'), 'g': ('T',)}, 'patterned': {'f': 'diag-one'}}
        out.append(dict(base, nt={'S': ()}, rules=[('S', ('T', 'T'), (), (('f', (0, 1)), ('g', (1,))))]))
        out.append(dict(base, nt={'S': ('T',)}, rules=[('S', T3, (0,), (('f', (0, 1)), ('f', (1, 2)), ('g', (2,))))]))
        out.append(dict(base, nt={'S': (), 'P': ('T', 'T')}, rules=[('S', T3, (), (('P', (0, 1)), ('f', (1, 2)), ('g', (0,)))), ('P', ('T', 'T'), (0, 1), (('f', (0, 1)), ('g', (1,))))]))
    return out


def fam_b_case(g, r):
    for dom in (1, 2):
        ir = dict(g)
        ir['nl'] = {'T': dom}
        w = IR.generic_weights(ir)
        for sem in ('real', 'log', 'bool', 'viterbi'):
            judge(ir, w, sem, 'float64', 'fixed-point', r, ('B1', g, dom, sem, 'float64'))


_ORC = {}


def judge(ir, w, sem, dtype, method, r, case, with_singleton=False):
    import fggs, torch
    ir = dict(ir)
    ir['w'] = w
    key = (tuple(ir['rules']), tuple(sorted(ir['nl'].items())), repr(w), sem, dtype, method)
    mode = 'max' if sem == 'viterbi' else 'sum'
    val = oracles.eval_nonrec(ir, w, mode)
    S = IR.semiring(sem, dtype)
    try:
        g = IR.build_fgg(ir, sem, dtype)
        zs = fggs.sum_products(g, method=method, semiring=S)
        z = fggs.sum_product(g, method=method, semiring=S)
    except Exception as e:
        r.exc(e, trig(ir, w, sem), case, key)
        return
    ok = True
    for nt in ir['nt']:
        el = g.get_edge_label(nt)
        shape = oracles.ext_shape(ir, nt)
        exp = IR.expected_tensor(val[nt], shape, sem, dtype)
        if el not in zs:
            r.bad('missing-nonterminal', 'sum_product.sum_products', trig(ir, w, sem), 'no value for %s; rules=%r' % (nt, ir['rules']), case, key)
            ok = False
            break
        got = zs[el].to_dense()
        if not IR.tensors_agree(got, exp, dtype):
            r.bad('wrong-value', 'sum_product.sum_products', trig(ir, w, sem), '%s/%s/%s: value of %s = %r, definition gives %r; rules=%r nl=%r w=%r' % (sem, dtype, method, nt, got.tolist(), exp.tolist(), ir['rules'], ir['nl'], w), case, key)
            ok = False
            break
    if ok:
        exp = IR.expected_tensor(val[ir['start']], oracles.ext_shape(ir, ir['start']), sem, dtype)
        if not IR.tensors_agree(z.to_dense(), exp, dtype):
            r.bad('wrong-value', 'sum_product.sum_product', trig(ir, w, sem), 'sum_product != sum_products[start]', case, key)
            ok = False
    if ok and with_singleton and len(ir['rules']) == 1:
        try:
            fg = fggs.FactorGraph()
            rhs, nodes = IR.build_rule_graph(ir, ir['rules'][0])
            for v in rhs.nodes():
                fg.add_node(v)
            for e in rhs.edges():
                fg.add_edge(e)
            fg.ext = rhs.ext
            fg.domains = g.domains
            fg.factors = g.factors
            z2 = fggs.sum_product(fggs.singleton_fgg(fg), method=method, semiring=S).to_dense()
        except Exception as e:
            r.exc(e, trig(ir, w, sem), case, key)
            return
        if not IR.tensors_agree(z2, exp, dtype):
            r.bad('wrong-value', 'utils.singleton_fgg', trig(ir, w, sem), 'singleton_fgg(factor graph) gives %r, definition %r' % (z2.tolist(), exp.tolist()), case, key)
            ok = False
    if ok:
        sv = val[ir['start']]
        nontriv = any(x != 0 for x in sv.values())
        r.ok(key, outcome=(sem, 'zero' if not nontriv else ('inf' if any(x == IR.INF for x in sv.values()) else 'finite')), nontrivial=nontriv)


def trig(ir, w, sem):
    return 'any'
