"""C11 — solver options change cost, never the answer."""
import itertools, math, os, sys, pickle, subprocess, tempfile, shutil, json, warnings
from fractions import Fraction
from mc.core import Res, REPO, VERIF
from mc import ir as IR, oracles

PID = 'C11'
LEVEL = 'exploration'
RULE = ('finite-Z grammars: every single-rule FGG over Shapes(3,2,2), Shapes(2,3,2) (thorough: Shapes(3,3,2)) '
        'with factor sharing, and ten recursive templates x weightings over {0,1/4,1/2} with contraction '
        'ratio <= 0.9; for each the full cross product method {fixed-point, newton, linear where admissible} x '
        'j_precompute {off,on} x dtype {float32,float64} x semiring {Real,Log,Viterbi,Bool} for values, and Real/Log x '
        'method x j_precompute in float64 for gradients, all compared with the reference configuration (fixed-point, no '
        'precompute, float64): Real values/gradients equal within the solver tolerance, Log = log Real, Bool = support, '
        'Viterbi <= Log, no configuration raises where another answers; the same cases are evaluated in real '
        'interpreters started with no flag, -O and -OO and must agree exactly; bin/sum_product.py under -OO vs no flag '
        'vs the API on generated JSON files. Non-trivial = grammar with non-zero Z.')
ASSUMPTIONS = ['recursive cases restricted to contraction ratio <= 0.9 (measured by the 50-digit Kleene oracle); float64 runs '
               'use tol 1e-12 and are compared at 1e-8, float32 runs tol 1e-5 compared at 1e-3',
               'known finding K05: j_precompute=True on rules outside the "clean" class (see KNOWN_FINDINGS.json)']
CHUNK = 1
ALPHA = [Fraction(0), Fraction(1, 4), Fraction(1)]       # weight exactly one: 0.0 in log space
METHODS = ('fixed-point', 'newton', 'linear')
CASE_TIMEOUT_S = 600.0


def bounds(tier):
    return {'A_shapes': [(3, 2, 2), (2, 3, 2)] + ([(3, 3, 2)] if tier == 'thorough' else []),             'recursive_free_entries': 3, 'interpreter_flags': ['', '-O', '-OO'], 'cli_files': 6 if tier == 'quick' else 24}


def specs(tier):
    """list of (kind, ir-with-weights)"""
    out = []
    seen = set()
    b = bounds(tier)
    fams = list(b['A_shapes'])
    for fam in fams:
        for sh in IR.shapes(*fam, ('T',), 2):
            if sh in seen or not sh[1]:
                continue
            seen.add(sh)
            for names in IR.label_assignments(sh[0], sh[1], 2):
                ir = IR.single_rule_ir(sh, names, 2)
                ir['w'] = IR.generic_weights(ir, stride=5)
                out.append(('A', ir))
    T = IR.recursive_templates()
    for name in T:
        for dom in (1, 2):
            if dom == 2 and not any(T[name]['term'][t] for t in T[name]['term']):
                continue
            if dom == 1 and 'patterned' in T[name]:
                continue
            for irx, w in IR.template_weightings(T[name], ALPHA, b['recursive_free_entries'], dom):
                ir = dict(irx)
                ir['w'] = w
                out.append(('R', ir))
    # a stride of the multi-nonterminal family (rule-less / unproductive nonterminals, factors shared between the rules
    # of one nonterminal, rules that are zero for some external values)
    from checks.c01_sumproduct import family_b
    nz = 0
    for i, g in enumerate(family_b('quick')):
        take = i % (60 if tier == 'quick' else 12) == 7
        if not take and nz < (24 if tier == 'quick' else 200) and dead_rule_shares_factor(g):
            take = True
            nz += 1
        if take:
            ir = dict(g)
            ir['nl'] = {'T': 2}
            ir['w'] = IR.generic_weights(ir, stride=5)
            out.append(('B', ir))
    return out


def dead_rule_shares_factor(g):
    """some nonterminal reachable from the start has a rule that is identically zero (it uses a rule-less nonterminal)
    and a live rule using one of the same terminal factors"""
    has_rule = {r[0] for r in g['rules']}
    reach = IR.reach(IR.nt_graph(g))
    for nt in g['nt']:
        if nt != g['start'] and nt not in reach[g['start']]:
            continue
        rs = [r for r in g['rules'] if r[0] == nt]
        dead = [r for r in rs if any(l in g['nt'] and l not in has_rule for l, _ in r[3])]
        live = [r for r in rs if all(l not in g['nt'] or l in has_rule for l, _ in r[3])]
        for d in dead:
            td = {l for l, _ in d[3] if l in g['term']}
            if any(td & {l for l, _ in x[3] if l in g['term']} for x in live):
                return True
    return False


def gen_cases(tier, seed):
    sp = specs(tier)
    nblocks = 16 if tier == 'quick' else 64
    size = (len(sp) + nblocks - 1) // nblocks
    for i in range(0, len(sp), size):
        yield ('block', tier, i, min(len(sp), i + size))
    for k in range(bounds(tier)['cli_files']):
        yield ('cli', tier, k)
    yield ('near',)


def describe(case):
    if case[0] == 'block':
        sp = specs(case[1])[case[2]:case[3]]
        return {'grammars': case[3] - case[2], 'first': sp[0][1]['rules'] if sp else None}
    return {'case': list(case)}


# ---------------------------------------------------------------------------------------------

def jp_clean(ir):
    """Rules on which the precomputed-products Jacobian is known to work: <= 1 edge, or no edgeless node, no edge
    attached twice to a node, and every node of the first and of the last edge is external or touched by another edge."""
    for lhs, labs, ext, edges in ir['rules']:
        if len(edges) <= 1:
            continue
        n = len(labs)
        deg = [sum(1 for e in edges if v in e[1]) for v in range(n)]
        if any(d == 0 for d in deg):
            return False
        if any(len(set(e[1])) < len(e[1]) for e in edges):
            return False
        for e in (edges[0], edges[-1]):
            if any(deg[v] < 2 and v not in ext for v in e[1]):
                return False
    return True


def configs_for(ir, kind, tier='quick'):
    from checks.c02_recursive import is_linear
    rec = IR.is_recursive(ir)
    lin = (not rec) or is_linear(ir)
    methods = METHODS if lin else METHODS[:2]
    cfgs = []
    if tier == 'thorough':
        for sem in ('real', 'log', 'viterbi', 'bool'):
            for m in methods:
                for jp in (False, True):
                    for dt in (('float64', 'float32') if sem != 'bool' else ('float64',)):
                        cfgs.append((sem, m, jp, dt, sem in ('real', 'log') and dt == 'float64'))
        return cfgs
    for m in methods:
        for jp in (False, True):
            cfgs.append(('real', m, jp, 'float64', True))
    cfgs += [('real', 'fixed-point', False, 'float32', False), ('real', 'newton', True, 'float32', False)]
    for sem in ('log', 'viterbi'):
        g = sem == 'log'
        cfgs += [(sem, 'fixed-point', False, 'float64', g), (sem, 'newton', False, 'float64', g), (sem, 'newton', True, 'float64', g), (sem, 'fixed-point', False, 'float32', False)]
        if lin:
            cfgs.append((sem, 'linear', False, 'float64', g))
    cfgs += [('bool', 'fixed-point', False, 'float64', False), ('bool', 'newton', True, 'float64', False)]
    if lin:
        cfgs.append(('bool', 'linear', False, 'float64', False))
    return cfgs


def near_critical(r, case):
    """S -> X ; X -> a X | b with the weight of a within 1e-3 .. 1e-6 of one (sum-product b/(1-a), finite): the direct
    solvers (newton, linear) in single and double precision, Log and Real, against the value computed in 50 digits
    from the very weights the grammar holds."""
    import fggs, torch, mpmath
    mp = mpmath.mp.clone() if hasattr(mpmath.mp, 'clone') else mpmath.mp
    mp.dps = 50
    T = IR.recursive_templates()['lin-scalar']
    for lw in (-1e-3, -1e-4, -1e-5, -1e-6):
        for sem in ('log', 'real'):
            for dt in ('float32', 'float64'):
                for m in ('newton', 'linear'):
                    key = ('near', lw, sem, dt, m)
                    try:
                        ir = dict(T)
                        ir['w'] = {'a': Fraction(math.exp(lw)), 'b': Fraction(1, 2)}
                        g = IR.build_fgg(ir, sem, dt)
                        wa, wb = [float(g.factors[n].weights.to_dense()) for n in ('a', 'b')]
                        if sem == 'log':
                            a_, b_ = mp.exp(mp.mpf(wa)), mp.exp(mp.mpf(wb))
                        else:
                            a_, b_ = mp.mpf(wa), mp.mpf(wb)
                        if a_ >= 1:
                            r.excl['near-critical: the weight rounds to one in this precision'] += 1
                            continue
                        want = b_ / (1 - a_)
                        z = float(fggs.sum_product(g, method=m, semiring=IR.semiring(sem, dt)).to_dense())
                        if sem == 'log':
                            err, tol = abs(z - float(mp.log(want))), 1e-3
                        else:
                            err, tol = abs(z - float(want)) / float(want), 1e-3
                        if not err <= tol:
                            r.bad('configuration-disagrees', 'sum_product.sum_product', 'near-critical/%s/%s/%s' % (sem, m, dt), 'X -> a X | b with log a = %g: %s %s %s gives %r, the sum-product of the stored weights is %r' % (lw, sem, m, dt, z, float(mp.log(want)) if sem == 'log' else float(want)), case, key)
                        else:
                            r.ok(key, outcome=('near-critical', sem, dt), nontrivial=True)
                    except Exception as e:
                        r.exc(e, 'near-critical', case, key)


def flag_configs(ir):
    """the (smaller) configuration set evaluated under each interpreter flag"""
    from checks.c02_recursive import is_linear
    rec = IR.is_recursive(ir)
    out = [('real', 'fixed-point', False, 'float64', True), ('real', 'newton', False, 'float64', True), ('log', 'fixed-point', False, 'float64', True),
           ('viterbi', 'newton', False, 'float64', False), ('bool', 'fixed-point', False, 'float64', False)]
    if jp_clean(ir):
        out += [('real', 'newton', True, 'float64', True), ('real', 'fixed-point', True, 'float32', False)]
    if not rec or is_linear(ir):
        out.append(('real', 'linear', False, 'float64', True))
    return out


def flat(x):
    if isinstance(x, list):
        out = []
        for y in x:
            out += flat(y)
        return out
    return [x]


def close(a, b, rtol, atol=1e-12):
    fa, fb = flat(a), flat(b)
    if len(fa) != len(fb):
        return False
    for x, y in zip(fa, fb):
        if isinstance(x, bool) or isinstance(y, bool):
            if bool(x) != bool(y):
                return False
            continue
        if x != x or y != y:
            return False
        if math.isinf(x) or math.isinf(y):
            if x != y:
                return False
            continue
        if abs(x - y) > rtol * max(abs(x), abs(y), 1e-300) + atol:
            return False
    return True


def run_case(case):
    warnings.simplefilter('ignore')
    r = Res()
    if case[0] == 'block':
        sp = specs(case[1])[case[2]:case[3]]
        block(sp, r, case, case[1])
    elif case[0] == 'near':
        near_critical(r, case)
    elif case[0] == 'cli':
        cli(case[1], r, case, case[2] if len(case) > 2 else None)
    elif case[0] == 'one':
        judge_one(case[1], case[2], r, case)
    return r


def block(sp, r, case, tier='quick'):
    from mc.c11_eval import evaluate
    keep = []
    for kind, ir in sp:
        ok = judge_one(kind, ir, r, ('one', kind, ir), tier)
        if ok:
            keep.append((kind, ir))
    # interpreter flags: real subprocesses
    if not keep:
        return
    work = [(ir, flag_configs(ir)) for kind, ir in keep]
    tmp = tempfile.mkdtemp(prefix='c11_')
    try:
        with open(os.path.join(tmp, 'in.pickle'), 'wb') as f:
            pickle.dump(work, f)
        results = {}
        env = dict(os.environ)
        env['PYTHONPATH'] = REPO + os.pathsep + VERIF
        for flag in ('', '-O', '-OO'):
            outp = os.path.join(tmp, 'out%s.pickle' % flag)
            cmd = ['/venv/bin/python'] + ([flag] if flag else []) + ['-m', 'mc.c11_eval', os.path.join(tmp, 'in.pickle'), outp]
            p = subprocess.run(cmd, env=env, capture_output=True, text=True, cwd=VERIF, timeout=500)
            if p.returncode != 0 or not os.path.exists(outp):
                r.bad('interpreter-run-failed', 'mc.c11_eval', 'flag' + flag, 'python %s evaluator failed: %s' % (flag, p.stderr[-400:]), case)
                return
            with open(outp, 'rb') as f:
                results[flag] = pickle.load(f)
        if results['']['debug'] is not True or results['-O']['debug'] is not False:
            r.bad('interpreter-run-failed', 'mc.c11_eval', 'flag', '__debug__ not as expected under the flags', case)
            return
        for gi, (kind, ir) in enumerate(keep):
            for ci, cfg in enumerate(work[gi][1]):
                base = results['']['results'][gi][ci]
                for flag in ('-O', '-OO'):
                    other = results[flag]['results'][gi][ci]
                    key = ('flag', repr(ir['rules']), repr(ir['w']), cfg, flag)
                    trig = 'python' + flag
                    if cfg[2] and not jp_clean(ir):
                        trig = 'j_precompute/unclean-rule'
                    if base[0] != other[0] or (base[0] == 'ok' and not (close(base[1], other[1], 1e-12) and grads_close(base[2], other[2], 1e-12))) or (base[0] == 'exc' and base[1] != other[1]):
                        r.bad('differs-under-optimisation-flag', 'sum_product.sum_product', trig, 'config %r: python gives %r, python %s gives %r; rules=%r w=%r' % (cfg, short(base), flag, short(other), ir['rules'], ir['w']), ('one', kind, ir), key)
                    else:
                        r.ok(key, outcome=('flag', flag), nontrivial=base[0] == 'ok')
    finally:
        shutil.rmtree(tmp, ignore_errors=True)


def short(res):
    return repr(res)[:300]


def grads_close(a, b, rtol):
    if a is None or b is None:
        return a is None and b is None
    if set(a) != set(b):
        return False
    for k in a:
        if a[k] is None or b[k] is None:
            za = a[k] is None or all(x == 0 for x in flat(a[k]))
            zb = b[k] is None or all(x == 0 for x in flat(b[k]))
            if not (za and zb):
                return False
            continue
        if not close(a[k], b[k], rtol):
            return False
    return True


def judge_one(kind, ir, r, case, tier='quick'):
    """In-process cross product against the reference configuration.  Returns False if out of scope."""
    from mc.c11_eval import evaluate
    rec = kind == 'R'
    if rec:
        status, mpv, rho = oracles.kleene_mp(ir, ir['w'])
        if status != 'finite' or rho is None or rho > 0.9:
            r.excl['recursive: divergent, undecided or contraction ratio > 0.9'] += 1
            return False
    clean = jp_clean(ir)
    zero_nt = False
    if rec:
        zero_nt = any(all(float(x) == 0 for x in mpv[nt].values()) for nt in ir['nt'])
    ref = evaluate(ir, ('real', 'fixed-point', False, 'float64', True))
    base_key = (repr(ir['rules']), repr(sorted(ir['nl'].items())), repr(ir['w']))
    if ref[0] != 'ok':
        r.bad('reference-configuration-raises', 'sum_product.sum_product', 'reference', 'fixed-point/float64 raised %r; rules=%r w=%r' % (ref, ir['rules'], ir['w']), case, base_key)
        return False
    Z = ref[1]
    if any(x != x or math.isinf(x) for x in flat(Z)):
        r.excl['Z not finite'] += 1
        return False
    logref = evaluate(ir, ('log', 'fixed-point', False, 'float64', True))
    ref_g, logref_g = ref[2], (logref[2] if logref[0] == 'ok' else None)
    if zero_nt:
        # fixed-point gradients at a zero-valued nonterminal are known finding K03 (C03): use newton as the gradient reference
        rn = evaluate(ir, ('real', 'newton', False, 'float64', True))
        ln = evaluate(ir, ('log', 'newton', False, 'float64', True))
        ref_g = rn[2] if rn[0] == 'ok' else None
        logref_g = ln[2] if ln[0] == 'ok' else None
    rt64, rt32 = (1e-8, 2e-3) if rec else (1e-9, 1e-4)
    for cfg in configs_for(ir, kind, tier):
        sem, m, jp, dt, grad = cfg
        key = base_key + (cfg,)
        trig = '%s/%s/%s' % (sem, m, dt)
        if jp:
            trig = 'j_precompute/clean-rule/' + sem if clean else 'j_precompute/unclean-rule'
        res = evaluate(ir, cfg)
        rt = rt64 if dt == 'float64' else rt32
        if res[0] != 'ok':
            r.bad('configuration-raises:' + res[1], res[2], trig, 'config %r raised %s at %s where the reference answers %r; rules=%r w=%r' % (cfg, res[1], res[2], Z, ir['rules'], ir['w']), case, key)
            continue
        v = res[1]
        msg = None
        if sem == 'real':
            if not close(v, Z, rt, 1e-12 if dt == 'float64' else 1e-6):
                msg = 'value %r vs reference %r' % (v, Z)
            elif grad and zero_nt and (m == 'fixed-point' or ref_g is None):
                r.excl['gradient comparison skipped: fixed-point at a zero-valued nonterminal (known finding K03 of C03)'] += 1
            elif grad and not grads_close(res[2], ref_g, 1e-6 if rec else 1e-9):
                msg = 'gradients %r vs reference %r' % (res[2], ref_g)
        elif sem == 'log':
            want = [math.log(x) if x > 0 else -math.inf for x in flat(Z)]
            if not close(flat(v), want, rt, 1e-9 if dt == 'float64' else 1e-4):
                msg = 'Log value %r vs log of Real %r' % (v, want)
            elif grad and zero_nt and (m == 'fixed-point' or logref_g is None):
                r.excl['gradient comparison skipped: fixed-point at a zero-valued nonterminal (known finding K03 of C03)'] += 1
            elif grad and logref_g is not None and not grads_close(res[2], logref_g, 1e-6 if rec else 1e-9):
                msg = 'Log gradients %r vs reference %r' % (res[2], logref_g)
            elif grad and len(flat(Z)) == 1 and flat(Z)[0] > 0 and ref_g is not None:
                # Log = log Real also for the derivatives: d log Z / d log w = w dZ/dw / Z (scalar start symbol)
                z0 = flat(Z)[0]
                for name, gl in (res[2] or {}).items():
                    gr = ref_g.get(name)
                    wv = flat(IR.map_nested(ir['w'][name], lambda x: float(x)))
                    if ir.get('patterned', {}).get(name) == 'diag' and ir['nl'][ir['term'][name][0]] > 1:
                        k = ir['nl'][ir['term'][name][0]]
                        wv = [wv[i * k + i] for i in range(k)]
                    want = [0.0] * len(wv) if gr is None else [w_ * g_ / z0 for w_, g_ in zip(wv, flat(gr))]
                    got = [0.0] * len(wv) if gl is None else flat(gl)
                    if any(w_ > 0 and abs(a - b) > (1e-6 if rec else 1e-9) * max(1.0, abs(b)) for w_, a, b in zip(wv, got, want)):
                        msg = 'Log gradient of %s is %r but w dZ/dw / Z from the Real reference is %r' % (name, got, want)
                        break
        elif sem == 'bool':
            want = [x > 0 for x in flat(Z)]
            if [bool(x) for x in flat(v)] != want:
                msg = 'Bool value %r vs support of Real %r' % (v, want)
        else:
            want = [math.log(x) if x > 0 else -math.inf for x in flat(Z)]
            for a, b in zip(flat(v), want):
                if a != a or a > b + (1e-8 if dt == 'float64' else 1e-3) * max(1.0, abs(b)) or (b == -math.inf) != (a == -math.inf):
                    msg = 'Viterbi value %r exceeds Log value %r (or supports differ)' % (v, want)
                    break
        if msg:
            r.bad('configuration-disagrees', 'sum_product.sum_product', trig, 'config %r: %s; rules=%r nl=%r w=%r' % (cfg, msg, ir['rules'], ir['nl'], ir['w']), case, key)
        else:
            r.ok(key, outcome=(sem, m, jp, dt), nontrivial=any(x != 0 for x in flat(Z)))
    return True


# ---------------------------------------------------------------------------------------------
# command-line tool

def cli(tier, r, case, only=None):
    import fggs, torch
    sp = specs(tier)
    n = bounds(tier)['cli_files']
    picks = [s for s in sp if s[0] == 'R'][:: max(1, len([s for s in sp if s[0] == 'R']) // (n // 2))][: n // 2] + \
            [s for s in sp if s[0] == 'A' and jp_clean(s[1]) and len(s[1]['rules'][0][3]) >= 2][:: 17][: n - n // 2]
    tmp = tempfile.mkdtemp(prefix='c11cli_')
    env = dict(os.environ)
    env['PYTHONPATH'] = REPO
    try:
        for gi, (kind, ir) in enumerate(picks):
            if only is not None and gi != only:
                continue
            if kind == 'R':
                status, mpv, rho = oracles.kleene_mp(ir, ir['w'])
                if status != 'finite' or rho is None or rho > 0.9:
                    continue
            g = IR.build_fgg(ir, 'real', 'float64', pres={'ids': 'asc'})
            path = os.path.join(tmp, 'g%d.json' % gi)
            with open(path, 'w') as f:
                json.dump(fggs.fgg_to_json(g), f)
            oshape = oracles.ext_shape(ir, ir['start'])
            ow = 2.0
            for sz in reversed(oshape):
                ow = [ow] * sz
            for opts in (['-d', '-G', '-m', 'fixed-point'], ['-d', '-G', '-j', '-m', 'newton'], ['-d', '-t'],
                         ['-d', '-G', '-m', 'fixed-point', '-o', json.dumps(ow)]):
                if '-j' in opts and not jp_clean(ir):
                    continue
                outs = {}
                for flag in ('', '-OO'):
                    cmd = ['/venv/bin/python'] + ([flag] if flag else []) + [os.path.join(REPO, 'bin', 'sum_product.py'), path] + opts + ['-l', '1e-12']
                    p = subprocess.run(cmd, env=env, capture_output=True, text=True, cwd=tmp, timeout=300)
                    outs[flag] = (p.returncode, parse_cli(p.stdout))
                key = ('cli', repr(ir['rules']), repr(ir['w']), tuple(opts))
                if not (outs[''][0] == outs['-OO'][0] == 0):
                    r.bad('cli-fails', 'bin/sum_product.py', 'cli', 'return codes %r for options %r; rules=%r' % ({k: v[0] for k, v in outs.items()}, opts, ir['rules']), case, key)
                    continue
                if not cli_close(outs[''][1], outs['-OO'][1]):
                    r.bad('differs-under-optimisation-flag', 'bin/sum_product.py', 'cli', 'options %r: python %r, -OO %r; rules=%r' % (opts, outs[''][1], outs['-OO'][1], ir['rules']), case, key)
                    continue
                # against the API
                from mc.c11_eval import evaluate
                if '-t' not in opts:
                    api = evaluate(ir, ('real', opts[opts.index('-m') + 1], '-j' in opts, 'float64', True))
                    lines = outs['-OO'][1]
                    okk = api[0] == 'ok' and close(lines[0][1], api[1], 1e-8)
                    if okk:
                        for name, val in lines[1:]:
                            nm = name[len('grad['):-1] if name.startswith('grad[') else name
                            scale = 2.0 if '-o' in opts else 1.0        # -o weights every element of the sum-product by 2
                            if nm in api[2] and api[2][nm] is not None and not close(val, scaled(api[2][nm], scale), 1e-6):
                                okk = False
                    if not okk:
                        r.bad('cli-disagrees-with-api', 'bin/sum_product.py', 'cli', 'options %r: CLI %r, API %r; rules=%r' % (opts, lines, api, ir['rules']), case, key)
                        continue
                r.ok(key, outcome='cli', nontrivial=True)
            cli_w_e(ir, g, gi, tmp, env, r, case)
    finally:
        shutil.rmtree(tmp, ignore_errors=True)


def cli_w_e(ir, g, gi, tmp, env, r, case, site='bin/sum_product.py'):
    import fggs
    # weights of two factors given on the command line (-w), gradients (-g) and expected counts (-e)
    terms = [t for t in sorted(ir['term']) if any(t == l for rule in ir['rules'] for l, _ in rule[3])]
    if len(terms) >= 2:
        t1, t2 = terms[0], terms[1]
        key = ('cli-w', repr(ir['rules']), repr(ir['w']), t1, t2)
        try:
            j = fggs.fgg_to_json(g)
            wj = {t: j['interpretation']['factors'][t]['weights'] for t in (t1, t2)}
            for t in (t1, t2):
                del j['interpretation']['factors'][t]
            path2 = os.path.join(tmp, 'g%d_w.json' % gi)
            with open(path2, 'w') as f:
                json.dump(j, f)
            cmd = ['/venv/bin/python', '-OO', os.path.join(REPO, 'bin', 'sum_product.py'), path2, '-d', '-m', 'fixed-point', '-l', '1e-12',
                   '-w', t1, json.dumps(wj[t1]), '-w', t2, json.dumps(wj[t2]), '-g', '-e']
            p = subprocess.run(cmd, env=env, capture_output=True, text=True, cwd=tmp, timeout=300)
            lines = parse_cli(p.stdout)
            from mc.c11_eval import evaluate
            api = evaluate(ir, ('real', 'fixed-point', False, 'float64', True))
            okk = p.returncode == 0 and api[0] == 'ok' and lines and close(lines[0][1], api[1], 1e-8)
            detail = ''
            if okk:
                ztot = sum(flat_list(api[1]))
                got = dict(lines[1:])
                for t in (t1, t2):
                    gr = api[2].get(t)
                    if gr is None:
                        continue
                    want_e = mul_lists(gr, wj[t], 1.0 / ztot) if ztot else None
                    if 'grad[%s]' % t not in got or not close(got['grad[%s]' % t], gr, 1e-6):
                        okk, detail = False, 'grad[%s]: CLI %r, API %r' % (t, got.get('grad[%s]' % t), gr)
                    elif want_e is not None and ('E[#%s]' % t not in got or not close(got['E[#%s]' % t], want_e, 1e-6)):
                        okk, detail = False, 'E[#%s]: CLI %r, w dZ/dw / Z = %r' % (t, got.get('E[#%s]' % t), want_e)
            if not okk:
                r.bad('cli-disagrees-with-api', 'bin/sum_product.py', 'cli', '-w %s -w %s -g -e: rc=%d %s; stderr %s; rules=%r' % (t1, t2, p.returncode, detail, p.stderr[-200:], ir['rules']), case, key)
            else:
                r.ok(key, outcome='cli-w', nontrivial=True)
        except Exception as e:
            r.exc(e, 'cli', case, key)


def flat_list(x):
    if isinstance(x, list):
        out = []
        for y in x:
            out += flat_list(y)
        return out
    return [x]


def mul_lists(a, b, c):
    if isinstance(a, list):
        return [mul_lists(x, y, c) for x, y in zip(a, b)]
    return a * b * c


def scaled(x, c):
    return [scaled(y, c) for y in x] if isinstance(x, list) else (None if x is None else x * c)


def parse_cli(text):
    out = []
    for line in text.strip().splitlines():
        if ':' in line and line.split(':', 1)[0].startswith(('grad[', 'E[')):
            name, val = line.split(':', 1)
        else:
            name, val = '', line
        try:
            out.append((name.strip(), json.loads(val.strip().replace('Infinity', '1e999').replace('NaN', 'null'))))
        except Exception:
            out.append((name.strip(), val.strip()))
    return out


def cli_close(a, b):
    if len(a) != len(b):
        return False
    for (n1, v1), (n2, v2) in zip(a, b):
        if n1 != n2:
            return False
        if isinstance(v1, str) or isinstance(v2, str):
            if v1 != v2:
                return False
        elif not close(v1, v2, 1e-12):
            return False
    return True
