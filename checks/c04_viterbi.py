"""C04 — viterbi returns a well-formed derivation of maximal weight."""
import itertools, math, sys
from fractions import Fraction
from mc.core import Res, exc_kind, exc_site
from mc import ir as IR, oracles

PID = 'C04'
LEVEL = 'exploration'
RULE = ('(A) every single-rule FGG over Shapes(3,2,2) and Shapes(2,3,2) (rules whose attached nodes are all external, '
        'nullary edges, edgeless internal / external nodes, repeated attachment) x terminal sharing x domain sizes {1,2,3} '
        'x [generic log-weights; every single-entry deviation to log 0 or to a tie with another entry]; (B) a bounded '
        'family of multi-nonterminal non-recursive grammars; (R) eight recursive templates x all weightings over '
        '{0,1/4,1/2,1,2} of up to 5 entries; for every start assignment whose maximum (exact max-times Kleene oracle) is '
        'finite, positive and attained: the returned FGGDerivation is checked structurally (rule of the grammar for the '
        'rewritten nonterminal, exactly one child per nonterminal edge, every node assigned inside its domain, externals '
        'agree with the parent) and its weight - recomputed by the harness from the rule instances and from derive() - '
        'must equal the oracle optimum and the Viterbi-semiring sum_product. Non-trivial = case with >= 1 internal node '
        'or nonterminal edge.')
ASSUMPTIONS = ['ties: any maximiser accepted (only the total weight is compared)', 'log-weights compared at rtol 1e-9']
CHUNK = 8


def bounds(tier):
    return {'A_shapes': [(3, 2, 2), (2, 3, 2)] if tier == 'quick' else [(3, 3, 2), (2, 4, 2)], 'domain_sizes': [1, 2, 3],
            'recursive_weight_alphabet': ['0', '1/4', '1/2', '1', '2'], 'max_free_entries': 4 if tier == 'quick' else 5}


ALPHA = [Fraction(0), Fraction(1, 4), Fraction(1, 2), Fraction(1), Fraction(2)]


def gen_cases(tier, seed):
    b = bounds(tier)
    seen = set()
    for fam in b['A_shapes']:
        for sh in IR.shapes(*fam, ('T',), 2):
            if sh not in seen:
                seen.add(sh)
                yield ('A', sh)
    from checks.c01_sumproduct import family_b
    for i, g in enumerate(family_b('quick')):
        if tier == 'thorough' or i % 4 == 0:
            yield ('B', g)
    for i in range(len(patterned_irs())):
        yield ('P', i)
    for i in range(len(chain_irs())):
        yield ('Q', i)
    T = IR.recursive_templates()
    for name in T:
        for dom in (1, 2):
            if dom == 1 and not any(T[name]['term'][t] for t in T[name]['term']):
                continue
            for irx, w in IR.template_weightings(T[name], ALPHA, b['max_free_entries'], dom):
                for order in (0, 1):
                    yield ('R', name, dom, tuple(sorted((k, repr(v)) for k, v in w.items())), order)


def describe(case):
    if case[0] == 'A':
        return {'family': 'A', 'shape': case[1]}
    if case[0] == 'B':
        return {'family': 'B', 'rules': case[1]['rules']}
    return {'case': list(case)}


def run_case(case):
    sys.setrecursionlimit(600)
    r = Res()
    if case[0] == 'A':
        fam_a(case[1], r)
    elif case[0] == 'B':
        g = case[1]
        for dom in (1, 2):
            ir = dict(g)
            ir['nl'] = {'T': dom}
            judge(ir, IR.generic_weights(ir, stride=7), r, ('V1', ir, ('generic', 0)), nonrec=True)
    elif case[0] == 'P':
        ir = patterned_irs()[case[1]]
        w = IR.generic_weights(ir, stride=7)
        for a in range(ir['nl']['T']):
            for b in range(ir['nl']['T']):
                if a != b:
                    w = IR.set_entry(w, 'i', (a, b), Fraction(0))
        judge(ir, w, r, case, nonrec=True)
        judge(ir, w, r, case, nonrec=True, pres={'node_order': {ri: tuple(reversed(range(len(rule[1])))) for ri, rule in enumerate(ir['rules'])}})
    elif case[0] == 'Q':
        ir, w = chain_irs()[case[1]]
        judge(ir, w, r, case, nonrec=False)
    elif case[0] == 'R':
        _, name, dom, wrepr, order = case
        ir = dict(IR.recursive_templates()[name])
        ir['nl'] = {k: dom for k in ir['nl']}
        w = {k: eval(v, {'Fraction': Fraction, 'inf': math.inf}) for k, v in wrepr}
        if order:
            # reversed rule order: which of two tied rules comes first is a presentation choice
            ir['rules'] = list(reversed(ir['rules']))
        judge(ir, w, r, case, nonrec=False)
        if not order:
            for gr in growable(ir):
                judge(ir, w, r, case, nonrec=False, grow=gr)
    elif case[0] == 'V1':
        ir, wspec = case[1], case[2]
        pres = {'node_order': {0: tuple(reversed(range(len(ir['rules'][0][1]))))}} if len(case) > 3 else None
        judge(ir, weights_for(ir, wspec), r, case, nonrec=True, pres=pres)
    return r


def patterned_irs():
    """Rules with three external nodes and an internal node tied to one of them through a factor stored as a diagonal
    pattern (the back-pointer of the internal node is a copy of an output axis), as start symbol and below a parent."""
    out = []
    for dom in (2, 3):
        for k in (0, 1, 2):
            for flip in (False, True):
                att = (k, 3) if flip else (3, k)
                others = tuple(j for j in range(3) if j != k)
                xrule = ('X', ('T',) * 4, (0, 1, 2), (('g', others + (3,)), ('i', att), ('h', (3,))))
                base = {'nl': {'T': dom}, 'term': {'i': ('T', 'T'), 'g': ('T', 'T', 'T'), 'h': ('T',)}, 'patterned': {'i': 'diag'}}
                out.append(dict(base, start='X', nt={'X': ('T',) * 3}, rules=[xrule]))
                out.append(dict(base, start='S', nt={'S': (), 'X': ('T',) * 3}, term={'i': ('T', 'T'), 'g': ('T', 'T', 'T'), 'h': ('T',), 'p': ('T', 'T'), 'q': ('T',)},
                                rules=[('S', ('T',) * 3, (), (('X', (0, 1, 2)), ('p', (0, 1)), ('q', (2,)))), xrule]))
    return out


def chain_irs():
    """X(v) -> t(v,w) X(w) | e(v) over a domain of size 3 or 4 where t only leads from value i to i+1 and only the last
    value has a base weight: the best derivation from value 0 has to apply the recursive rule several times.  Both rule
    orders, the start symbol S -> X(v) f(v) and X itself as start symbol."""
    out = []
    T = ('T',)
    for dom in (3, 4):
        for order in (0, 1):
            for wrap in (False, True):
                xr = [('X', ('T', 'T'), (0,), (('t', (0, 1)), ('X', (1,)))), ('X', T, (0,), (('e', (0,)),))]
                if order:
                    xr.reverse()
                ir = {'start': 'S' if wrap else 'X', 'nl': {'T': dom}, 'term': {'t': ('T', 'T'), 'e': T}, 'nt': {'X': T}, 'rules': list(xr)}
                if wrap:
                    ir['nt'] = {'S': (), 'X': T}
                    ir['term']['f'] = T
                    ir['rules'] = [('S', T, (), (('X', (0,)), ('f', (0,))))] + ir['rules']
                w = {'t': [[(Fraction(1, 2 + i) if j == i + 1 else Fraction(0)) for j in range(dom)] for i in range(dom)],
                     'e': [Fraction(0)] * (dom - 1) + [Fraction(3, 4)]}
                if wrap:
                    w['f'] = [Fraction(1)] + [Fraction(1, 1000)] * (dom - 1)
                out.append((ir, w))
    return out


def weights_for(ir, wspec):
    w = IR.generic_weights(ir, rot=wspec[1], stride=7)
    if wspec[0] == 'dev':
        pos = IR.positions(ir)
        name, idx = pos[wspec[2]]
        if wspec[3] == '0':
            val = Fraction(0)
        else:   # tie with the next entry
            n2, i2 = pos[(wspec[2] + 1) % len(pos)]
            val = IR.get_entry(w[n2], i2)
        w = IR.set_entry(w, name, idx, val)
    return w


def fam_a(sh, r):
    labs, edges, ext = sh
    for names in IR.label_assignments(labs, edges, 2):
        for dom in (1, 2, 3):
            ir = IR.single_rule_ir(sh, names, dom)
            specs = [('generic', 0)]
            if dom <= 2:
                for pi in range(len(IR.positions(ir))):
                    specs += [('dev', 0, pi, '0'), ('dev', 0, pi, 'tie')]
            for ws in specs:
                judge(ir, weights_for(ir, ws), r, ('V1', ir, ws), nonrec=True)
            # second presentation: nodes inserted in reverse order (insertion order != first mention in the edges)
            if len(labs) >= 2:
                judge(ir, weights_for(ir, ('generic', 0)), r, ('V1', ir, ('generic', 0), 'rev'), nonrec=True, pres={'node_order': {0: tuple(reversed(range(len(labs))))}})


def tie_cycle(ir, w, val, start, ea0):
    """Is there a derivation attaining the optimum at (start, ea0) that revisits a (nonterminal, assignment) pair?
    (a cycle of weight exactly one tying with the optimum)."""
    succ = {}
    for nt in ir['nt']:
        for ea, v in val[nt].items():
            if v == 0 or v == IR.INF:
                continue
            out = set()
            for rule in ir['rules']:
                if rule[0] != nt:
                    continue
                lhs, labs, ext, edges = rule
                n = len(labs)
                free = [i for i in range(n) if i not in ext]
                for ia in itertools.product(*[range(ir['nl'][labs[i]]) for i in free]):
                    a = [None] * n
                    for vv, x in zip(ext, ea):
                        a[vv] = x
                    for vv, x in zip(free, ia):
                        a[vv] = x
                    p = Fraction(1)
                    for lab, att in edges:
                        x = IR.get_entry(w[lab], tuple(a[i] for i in att)) if lab in ir['term'] else val[lab][tuple(a[i] for i in att)]
                        p = IR.mulx(p, x)
                    if p == v:
                        for lab, att in edges:
                            if lab in ir['nt']:
                                out.add((lab, tuple(a[i] for i in att)))
            succ[(nt, ea)] = out
    # cycle reachable from (start, ea0)?
    color = {}

    def dfs(u):
        color[u] = 1
        for v in succ.get(u, ()):
            if color.get(v) == 1:
                return True
            if v not in color and dfs(v):
                return True
        color[u] = 2
        return False
    return dfs((start, ea0))


def growable(ir):
    """Nonterminals N (not the start symbol) such that the grammar without N - and without every rule mentioning N -
    still gives the start symbol a rule: the grammar can be queried, grown by N and its rules, and queried again."""
    out = []
    for N in ir['nt']:
        if N == ir['start']:
            continue
        keep = [i for i, rule in enumerate(ir['rules']) if rule[0] != N and all(l != N for l, _ in rule[3])]
        if any(ir['rules'][i][0] == ir['start'] for i in keep) and len(keep) < len(ir['rules']):
            out.append((N, keep))
    return out


def judge(ir, w, r, case, nonrec, pres=None, grow=None):
    import fggs, torch
    ir = dict(ir)
    ir['w'] = w
    if nonrec:
        val = oracles.eval_nonrec(ir, w, 'max')
    else:
        val, _ = oracles.kleene_exact(ir, w, 'max')
        if val is None:
            r.excl['unbounded-or-not-attained'] += 1
            return
    start = ir['start']
    S = IR.semiring('viterbi', 'float64')
    try:
        if grow is None:
            g = IR.build_fgg(ir, 'viterbi', 'float64', pres=pres)
        else:
            # history: the grammar is first built without nonterminal N, queried once, then grown in place
            N, keep = grow
            part = dict(ir)
            part['nt'] = {k: v for k, v in ir['nt'].items() if k != N}
            part['rules'] = [ir['rules'][i] for i in keep]
            used = {l for rule in part['rules'] for l, _ in rule[3]}
            part['term'] = {k: v for k, v in ir['term'].items() if k in used}
            g = IR.build_fgg(part, 'viterbi', 'float64')
            for ea in oracles.all_assts(oracles.ext_shape(ir, start)):
                try:
                    fggs.viterbi(g, ea, semiring=S)
                except Exception:
                    pass
            IR.extend_fgg(g, ir, [i for i in range(len(ir['rules'])) if i not in keep], 'viterbi', 'float64')
    except Exception as e:
        r.exc(e, 'build', case)
        return
    shape = oracles.ext_shape(ir, start)
    zvit = None
    for ea in oracles.all_assts(shape):
        opt = val[start][ea]
        key = (tuple(ir['rules']), tuple(sorted(ir['nl'].items())), repr(w), ea, repr(pres), grow and grow[0])
        if opt == 0 or opt == IR.INF:
            r.excl['optimum zero or infinite'] += 1
            continue
        tie = (not nonrec) and tie_cycle(ir, w, val, start, ea)
        trig = 'tie-through-weight-one-cycle' if tie else 'finite-attained-optimum'
        want = math.log(opt)
        try:
            d = fggs.viterbi(g, ea, semiring=S)
        except RecursionError as e:
            r.bad('no-answer', 'viterbi.reconstruct', trig, 'RecursionError in reconstruct; rules=%r w=%r asst=%r' % (ir['rules'], w, ea), case, key)
            continue
        except Exception as e:
            r.exc(e, trig, case, key)
            continue
        try:
            msg, wt = check_deriv(g, ir, d, start, ea, 0)
        except RecursionError:
            msg, wt = 'derivation is not a finite tree', None
        if msg:
            r.bad('ill-formed-derivation', 'viterbi.viterbi', trig, '%s; rules=%r nl=%r w=%r asst=%r' % (msg, ir['rules'], ir['nl'], w, ea), case, key)
            continue
        if abs(wt - want) > 1e-9 * max(1.0, abs(want)):
            r.bad('not-optimal', 'viterbi.viterbi', trig, 'derivation weight %r, optimum %r; rules=%r nl=%r w=%r asst=%r' % (wt, want, ir['rules'], ir['nl'], w, ea), case, key)
            continue
        try:
            fg, asst = d.derive()
            w2 = 0.
            for e in fg.edges():
                w2 += float(fg.factors[e.label.name].weights.to_dense()[tuple(asst[v] for v in e.nodes)])
            miss = [v for v in fg.nodes() if v not in asst]
        except Exception as e:
            r.exc(e, trig, case, key)
            continue
        if miss or abs(w2 - want) > 1e-9 * max(1.0, abs(want)):
            r.bad('derive-disagrees', 'derivations.derive', trig, 'derive(): %d unassigned nodes, weight %r vs optimum %r; rules=%r' % (len(miss), w2, want, ir['rules']), case, key)
            continue
        if zvit is None:
            try:
                zvit = fggs.sum_product(g, semiring=S, method='fixed-point', tol=1e-12, kmax=200).to_dense()
            except Exception as e:
                r.exc(e, trig, case, key)
                continue
        zv = float(zvit[ea])
        if abs(zv - want) > 1e-9 * max(1.0, abs(want)):
            r.bad('viterbi-sum-product-disagrees', 'sum_product.sum_product', trig, 'Viterbi sum_product %r vs optimum %r; rules=%r w=%r' % (zv, want, ir['rules'], w), case, key)
            continue
        nontriv = any(len(rule[1]) > len(rule[2]) or any(l in ir['nt'] for l, _ in rule[3]) for rule in ir['rules'])
        r.ok(key, outcome=('tie' if tie else 'ok', 'rec' if not nonrec else 'nonrec'), nontrivial=nontriv)


def check_deriv(g, ir, d, nt, ea, depth):
    """Structural well-formedness; returns (message or None, log-weight)."""
    if depth > 200:
        raise RecursionError
    label = g.get_edge_label(nt)
    rule = d.rule
    if not any(rule is x for x in g.rules(label)):
        return 'rule used for %s is not a rule of the grammar for that nonterminal' % nt, None
    nodes = list(rule.rhs.nodes())
    for v in nodes:
        if v not in d.asst:
            return 'node %s of a rule instance has no value' % (v,), None
        x = d.asst[v]
        size = g.domains[v.label.name].size()
        if not (isinstance(x, int) or (hasattr(x, '__index__'))) or not (0 <= int(x) < size):
            return 'value %r outside the domain of size %d' % (x, size), None
    if tuple(int(d.asst[v]) for v in rule.rhs.ext) != tuple(ea):
        return 'external nodes %r disagree with the parent assignment %r' % (tuple(d.asst[v] for v in rule.rhs.ext), ea), None
    nts = [e for e in rule.rhs.edges() if e.label.is_nonterminal]
    if set(d.children.keys()) != set(nts) or len(d.children) != len(nts):
        return 'children do not correspond one-to-one to the nonterminal edges', None
    wt = 0.
    for e in rule.rhs.edges():
        if e.label.is_terminal:
            wt += float(g.factors[e.label.name].weights.to_dense()[tuple(int(d.asst[v]) for v in e.nodes)])
    for e in nts:
        msg, w2 = check_deriv(g, ir, d.children[e], e.label.name, tuple(int(d.asst[v]) for v in e.nodes), depth + 1)
        if msg:
            return msg, None
        wt += w2
    return None, wt
