"""C17 — conjunction generates exactly the paired derivations."""
import itertools, collections
from mc.core import Res

PID = 'C17'
LEVEL = 'exploration'
RULE = ('every ordered pair (g1, g2) of HRGs from a bounded family over shared node ids v0,v1 and nonterminal-edge ids '
        'e0,e1 (1-2 start rules out of 7 skeleton/labelling instances, one with an isolated internal node, 0-1 rule for X out of 4, one rule for Y, rules '
        'for a binary nonterminal W with externals in both orders) x nonterminal naming schemes (plain; the '
        '"X"+"Y,Z" / "X,Y"+"Z" clash; a terminal literally named like a pair; all natural pair names and their _1 variants taken; a shared terminal '
        'name with equal / different type; a production listed twice; a nonterminal name carrying another type in g2, alone and together with a terminal conflict; terminals of each grammar named like nonterminals of the other) x every other choice of the two start symbols (plain scheme; start symbols of different type have no paired derivation) x edge and node insertion order reversed in g2: the multiset of derivations (depth <= d) of '
        'conjoin_hrgs(g1,g2) (each rule instance identified by its terminals, node ids, external ids and nonterminal-edge ids) must equal the multiset of conjoinable pairs of derivations, computed by the harness '
        'from g1 and g2; paired names distinct and fresh; ValueError exactly for a genuine terminal conflict. '
        'Non-trivial = pair with >= 1 paired derivation.')
ASSUMPTIONS = ['terminal edges of g1 and g2 carry implicit (distinct) ids', 'derivations compared to depth d only']
CHUNK = 32

# skeletons: (nodes, ext, nonterminal edges [(edge id, attachment, arity-class)])
S_RULES = [  # (node ids, ext, [(eid, att, nt role)])
    (('v0',), (), ()),
    (('v0',), (), (('e0', ('v0',), 'X'),)),
    (('v0', 'v1'), (), (('e0', ('v0',), 'X'), ('e1', ('v1',), 'Y'))),
    (('v0', 'v1'), (), (('e0', ('v0',), 'Y'), ('e1', ('v1',), 'X'))),
    (('v0', 'v1'), (), (('e0', ('v0',), 'X'), ('e1', ('v1',), 'X'))),
    (('v0', 'v1'), (), (('e0', ('v0', 'v1'), 'W'),)),
    (('v0', 'v1'), (), (('e0', ('v0',), 'X'),)),        # v1 is internal and touched by no edge of either grammar
]
X_RULES = [
    (('v0',), ('v0',), ()),
    (('v0', 'v1'), ('v0',), (('e0', ('v1',), 'X'),)),
    (('v0', 'v1'), ('v0',), (('e0', ('v1',), 'Y'),)),
    (('v0', 'v1'), ('v0',), (('e0', ('v1',), 'X'), ('e1', ('v1',), 'Y'))),
]
Y_RULES = [(('v0',), ('v0',), ())]
W_RULES = [(('v0', 'v1'), ('v0', 'v1'), ()), (('v0', 'v1'), ('v1', 'v0'), ())]
ARITY = {'S': 0, 'X': 1, 'Y': 1, 'W': 2}


def bounds(tier):
    return {'derivation_depth': 3 if tier == 'quick' else 4, 'start_rules': '1-2 of 7', 'X_rules': '0-1 of 4',
            'naming_schemes': len(SCHEMES), 'edge_orders': 2}


def family():
    out = []
    s_opts = [(i,) for i in range(len(S_RULES))] + list(itertools.combinations(range(len(S_RULES)), 2))
    x_opts = [()] + [(i,) for i in range(len(X_RULES))]
    for s in s_opts:
        for x in x_opts:
            out.append((s, x))
    return out


SCHEMES = ('plain', 'clash', 'terminal-named-like-pair', 'shared-terminal-same-type', 'shared-terminal-other-type', 'pair-and-suffix-taken', 'duplicate-production',
           'nonterminal-name-other-type', 'nonterminal-name-other-type+shared-terminal-other-type', 'terminal-named-like-other-nonterminal')


def gen_cases(tier, seed):
    fam = family()
    for i, a in enumerate(fam):
        yield ('block', i, tier)
    yield ('hist', tier)


def describe(case):
    if case[0] == 'hist':
        return {'history': 'conjoin grammars that know only S,X; then only S,Y; then the full grammars (naming scheme clash)'}
    if case[0] == 'block':
        return {'g1': family()[case[1]], 'paired_with': 'every g2 of the family x naming schemes x edge orders'}
    return {'g1': case[1], 'g2': case[2], 'scheme': case[3], 'reverse_edges_in_g2': case[4], 'W_rules': (case[5], case[6])}


def names_for(scheme, side):
    if scheme == 'clash':
        return {'S': 'S', 'X': 'X', 'Y': 'X,Y', 'W': 'W'} if side == 1 else {'S': 'S', 'X': 'Y,Z', 'Y': 'Z', 'W': 'W'}
    if scheme.startswith('nonterminal-name-other-type') and side == 2:
        # g2 calls its binary nonterminal 'Y' and its unary one 'W': the names of g1, with other types (legal: pairs are renamed)
        return {'S': 'S', 'X': 'X', 'Y': 'W', 'W': 'Y'}
    if scheme == 'terminal-named-like-other-nonterminal' and side == 2:
        return {'S': 'S', 'X': 'X2', 'Y': 'Y2', 'W': 'W2'}
    return {'S': 'S', 'X': 'X', 'Y': 'Y', 'W': 'W'}


def mk(side, spec, scheme, reverse, wrules, only=None):
    import fggs
    from fggs import HRG, HRGRule, Graph, Node, Edge, EdgeLabel, NodeLabel
    T = NodeLabel('T')
    V = {'v0': Node(T, 'v0'), 'v1': Node(T, 'v1')}
    nm = names_for(scheme, side)
    L = {k: EdgeLabel(nm[k], [T] * ARITY[k], is_nonterminal=True) for k in ARITY}
    g = HRG(L['S'])
    for k in ('X', 'Y', 'W'):
        if only is None or k in only:
            g.add_edge_label(L[k])
    if scheme == 'pair-and-suffix-taken':
        # the natural paired names and their first suffixed variants are all taken by terminals
        for a in ('S', 'X', 'Y', 'W'):
            for b in ('S', 'X', 'Y', 'W'):
                nm = '<%s,%s>' % (a, b) + ('' if side == 1 else '_1')
                g.add_edge_label(EdgeLabel(nm, [], is_terminal=True))
    tag = 'a' if side == 1 else 'b'
    rules = []
    plan = [('S', S_RULES[i], i) for i in spec[0]] + [('X', X_RULES[i], i) for i in spec[1]] + \
           [('Y', Y_RULES[0], 0)] + [('W', W_RULES[i], i) for i in wrules]
    for lhs, (nodes, ext, nts), idx in plan:
        if only is not None and (lhs not in only or any(role not in only for _, _, role in nts)):
            continue          # this grammar does not know that nonterminal at all
        r = Graph()
        for v in (reversed(nodes) if reverse else nodes):      # with reverse, g2 also inserts its nodes in the other order
            r.add_node(V[v])
        r.ext = [V[v] for v in ext]
        nts_ = list(reversed(nts)) if reverse else list(nts)
        tl = '%s_%s_%d' % (tag, lhs, idx)
        ttype = [T]
        if scheme == 'terminal-named-like-pair' and side == 1 and lhs == 'S':
            tl = '<X,X>' if idx % 2 == 0 else '<S,S>'
        if (scheme in ('shared-terminal-same-type', 'shared-terminal-other-type') or scheme.endswith('+shared-terminal-other-type')) and lhs == 'S':
            tl = 'shared'
            if scheme.endswith('shared-terminal-other-type') and side == 2:
                ttype = [T, T]
        if scheme == 'terminal-named-like-other-nonterminal' and lhs in ('S', 'X'):
            # a terminal of one grammar carries the name of a nonterminal of the other (no conflict: only terminals can conflict)
            tl = {(1, 'S'): 'X2', (1, 'X'): 'Y2', (2, 'S'): 'X', (2, 'X'): 'Y'}[side, lhs]
        tlabel = EdgeLabel(tl, ttype, is_terminal=True)
        tedge = Edge(tlabel, [V[nodes[0]]] * len(ttype))
        if reverse:
            r.add_edge(tedge)
        for eid, att, role in nts_:
            r.add_edge(Edge(L[role], [V[v] for v in att], id=eid))
        if not reverse:
            r.add_edge(tedge)
        rule = HRGRule(L[lhs], r)
        g.add_rule(rule)
        if scheme == 'duplicate-production' and side == 1 and lhs == 'S':
            g.add_rule(rule)      # the same production listed twice: two derivations
    return g


def tkey(r):
    return tuple(sorted(e.label.name for e in r.rhs.edges() if e.label.is_terminal))


def nkey(r):
    return (tuple(sorted(v.id for v in r.rhs.nodes())), tuple(v.id for v in r.rhs.ext))


def skel(r):
    return (frozenset((v.id, v.label.name) for v in r.rhs.nodes()), tuple(v.id for v in r.rhs.ext),
            frozenset((e.id, tuple(v.id for v in e.nodes)) for e in r.rhs.edges() if e.label.is_nonterminal))


def nts_sorted(r):
    return sorted([e for e in r.rhs.edges() if e.label.is_nonterminal], key=lambda e: e.id)


def derivs(g, nt, depth, memo):
    k = (nt.name, depth)
    if k in memo:
        return memo[k]
    out = collections.Counter()
    if depth > 0:
        for r in g.rules(nt):
            nts = nts_sorted(r)
            subs = [derivs(g, e.label, depth - 1, memo) for e in nts]
            for combo in itertools.product(*[list(s.items()) for s in subs]):
                mult = 1
                for _, m in combo:
                    mult *= m
                out[(tkey(r), nkey(r), tuple((e.id, kk) for e, (kk, _) in zip(nts, combo)))] += mult
    memo[k] = out
    return out


def paired(g1, g2, n1, n2, depth, memo):
    k = (n1.name, n2.name, depth)
    if k in memo:
        return memo[k]
    out = collections.Counter()
    if depth > 0:
        for r1 in g1.rules(n1):
            for r2 in g2.rules(n2):
                if skel(r1) != skel(r2):
                    continue
                a, b = nts_sorted(r1), nts_sorted(r2)
                subs = [paired(g1, g2, x.label, y.label, depth - 1, memo) for x, y in zip(a, b)]
                for combo in itertools.product(*[list(s.items()) for s in subs]):
                    mult = 1
                    for _, m in combo:
                        mult *= m
                    out[(tuple(sorted(tkey(r1) + tkey(r2))), nkey(r1), tuple((e.id, kk) for e, (kk, _) in zip(a, combo)))] += mult
    memo[k] = out
    return out


def run_case(case):
    r = Res()
    if case[0] == 'pair':
        judge(case[1], case[2], case[3], case[4], case[5], case[6], case[7], r)
        return r
    if case[0] == 'hist':
        # histories: two earlier conjunctions in the same process each involve only ONE of the two nonterminal pairs
        # whose natural names coincide ("X"+"Y,Z" and "X,Y"+"Z"); then both pairs occur in one conjunction
        from fggs import conjoin_hrgs
        depth = bounds(case[1])['derivation_depth']
        fam = family()
        picks = [f for f in fam if f[1]][:: max(1, len([f for f in fam if f[1]]) // 12)][:12]
        for a in picks:
            for b in picks:
                try:
                    conjoin_hrgs(mk(1, a, 'clash', False, (0,), only={'S', 'X'}), mk(2, b, 'clash', False, (0, 1), only={'S', 'X'}))
                    conjoin_hrgs(mk(1, a, 'clash', False, (0,), only={'S', 'Y'}), mk(2, b, 'clash', False, (0, 1), only={'S', 'Y'}))
                except Exception as e:
                    r.exc(e, 'history', case, ('hist', a, b))
                    continue
                judge(a, b, 'clash', False, (0,), (0, 1), depth, r)
                judge(a, b, 'plain', True, (0,), (0, 1), depth, r)
        return r
    _, i, tier = case
    depth = bounds(tier)['derivation_depth']
    fam = family()
    a = fam[i]
    for b in fam:
        for scheme in SCHEMES:
            for reverse in (False, True):
                judge(a, b, scheme, reverse, (0,), (0, 1), depth, r)
                if 5 in a[0] and 5 in b[0] and scheme == 'plain':
                    judge(a, b, scheme, reverse, (1,), (0, 1), depth, r)
                    judge(a, b, scheme, reverse, (0, 1), (1,), depth, r)
    return r


def judge(a, b, scheme, reverse, w1, w2, depth, r):
    from fggs import conjoin_hrgs
    case = ('pair', a, b, scheme, reverse, w1, w2, depth)
    key = case
    g1 = mk(1, a, scheme, False, w1)
    g2 = mk(2, b, scheme, reverse, w2)
    expect_conflict = scheme.endswith('shared-terminal-other-type')
    try:
        c = conjoin_hrgs(g1, g2)
    except ValueError as e:
        if expect_conflict:
            r.ok(key, outcome='conflict-reported', nontrivial=False)
        else:
            r.exc(e, scheme, case, key)
        return
    except Exception as e:
        r.exc(e, scheme, case, key)
        return
    if expect_conflict:
        r.bad('terminal-conflict-not-reported', 'conjunction.conjoin_hrgs', scheme, 'terminal "shared" has type (T) in g1 and (T,T) in g2 but no ValueError', case, key)
        return
    dc = derivs(c, c.start, depth, {})
    dp = paired(g1, g2, g1.start, g2.start, depth, {})
    if dc != dp:
        extra = list((dc - dp).items())[:2]
        missing = list((dp - dc).items())[:2]
        r.bad('derivations-differ', 'conjunction.conjoin_hrgs', scheme, 'g1=%r g2=%r scheme=%s reverse=%s W=%r/%r: %d conjoined vs %d paired derivations; extra=%r missing=%r' % (a, b, scheme, reverse, w1, w2, sum(dc.values()), sum(dp.values()), extra, missing), case, key)
        return
    names = [l.name for l in c.nonterminals()]
    old = {l.name for l in g1.edge_labels()} | {l.name for l in g2.edge_labels()}
    if len(set(names)) != len(names) or set(names) & old:
        r.bad('paired-names-not-fresh', 'conjunction.nonterminal_pairs', scheme, 'nonterminal names %r vs existing %r' % (names, sorted(old)), case, key)
        return
    # every conjoined rule is well formed w.r.t. the labels' types
    for rule in c.all_rules():
        if tuple(rule.lhs.type) != tuple(rule.rhs.type):
            r.bad('ill-typed-rule', 'conjunction.conjoin_rules', scheme, 'lhs type %r rhs type %r' % (rule.lhs.type, rule.rhs.type), case, key)
            return
    # the same two rule sets under every other choice of start symbols (also of different arity): HRGs whose start
    # symbol is X, Y or W are HRGs too, and a pair of start symbols of different type has no paired derivation at all
    if scheme == 'plain' and not reverse:
        for n1 in sorted(g1.nonterminals(), key=lambda l: l.name):
            for n2 in sorted(g2.nonterminals(), key=lambda l: l.name):
                if n1 == g1.start and n2 == g2.start:
                    continue
                h1, h2 = mk(1, a, scheme, False, w1), mk(2, b, scheme, reverse, w2)
                try:
                    h1.start = h1.get_edge_label(n1.name)
                    h2.start = h2.get_edge_label(n2.name)
                    c2 = conjoin_hrgs(h1, h2)
                    dc2 = derivs(c2, c2.start, depth, {})
                except Exception as e:
                    r.exc(e, scheme + '/start=%s,%s' % (n1.name, n2.name), case, key)
                    return
                dp2 = paired(h1, h2, h1.start, h2.start, depth, {})
                if dc2 != dp2:
                    r.bad('derivations-differ', 'conjunction.conjoin_hrgs', scheme + '/other-start', 'g1=%r g2=%r start symbols %s (type %r) and %s (type %r): %d conjoined vs %d paired derivations; extra=%r missing=%r' % (
                        a, b, n1.name, tuple(l.name for l in n1.type), n2.name, tuple(l.name for l in n2.type), sum(dc2.values()), sum(dp2.values()), list((dc2 - dp2).items())[:2], list((dp2 - dc2).items())[:2]), case, key)
                    return
    r.ok(key, outcome=('derivs', min(sum(dc.values()), 50)), nontrivial=sum(dc.values()) > 0)
