"""C03 — gradients of the sum-product are the true derivatives."""
import itertools, math
from fractions import Fraction
from mc.core import Res, exc_kind, exc_site
from mc import ir as IR, oracles

PID = 'C03'
LEVEL = 'exploration'
RULE = ('(A) every single-rule FGG over Shapes(3,2,2) and Shapes(2,3,2) x terminal sharing (one factor used twice / two '
        'factors) x domain sizes {1,2} x [generic weights; every single entry set to 0]; (B) a bounded family of '
        'multi-nonterminal grammars (factors shared between rules, factors unreachable from the start, unproductive '
        'nonterminals, several rules per nonterminal, dead rules before live ones); (R) nine recursive templates with all '
        'weightings of 3 entries over {0,1/4,1/2} (subcritical), methods fixed-point / newton / linear; Real and Log '
        'semirings, all weights requiring grad, cotangents = every one-hot on the start tensor, all-ones and one with negative coefficients (-1,+2,-1,...); oracle = '
        'exact forward-mode derivative of the definition on the IR (rationals; 40-digit Kleene iteration with dual '
        'numbers for recursive grammars); Log: w dZ/dw / Z for finite log-weights. Patterned (diagonal) weights are '
        'compared on physically backed entries. Non-trivial = some non-zero gradient entry.')
ASSUMPTIONS = ['default Jacobian path (j_precompute=False); the precompute path is compared relationally in C11',
               'gradient None is accepted as all-zero for factors that cannot influence the start symbol',
               'tolerance 1e-9 relative (non-recursive), 1e-6 (recursive, tol=1e-13)']
CHUNK = 8
ALPHA = [Fraction(0), Fraction(1, 4), Fraction(1, 2)]


def bounds(tier):
    return {'A_shapes': [(3, 2, 2), (2, 3, 2)] if tier == 'quick' else [(3, 3, 2), (2, 4, 2)], 'domain_sizes': [1, 2],
            'recursive_free_entries': 3 if tier == 'quick' else 4}


def gen_cases(tier, seed):
    b = bounds(tier)
    seen = set()
    for fam in b['A_shapes']:
        for sh in IR.shapes(*fam, ('T',), 2):
            if sh not in seen and sh[1]:
                seen.add(sh)
                yield ('A', sh)
    from checks.c01_sumproduct import family_b
    for i, g in enumerate(family_b('quick')):
        if tier == 'thorough' or i % 6 == 0:
            yield ('B', g)
    T = IR.recursive_templates()
    for name in T:
        for dom in (1, 2):
            if dom == 2 and not any(T[name]['term'][t] for t in T[name]['term']):
                continue
            if dom == 1 and 'patterned' in T[name]:
                continue
            for irx, w in IR.template_weightings(T[name], ALPHA, b['recursive_free_entries'], dom):
                yield ('R', name, dom, tuple(sorted((k, repr(v)) for k, v in w.items())))
    for name in ('lin-ext', 'quad-ext', 'mutual', 'sibling-trivial'):
        yield ('cli', name)


def describe(case):
    if case[0] == 'A':
        return {'family': 'A', 'shape': case[1]}
    if case[0] == 'B':
        return {'family': 'B', 'rules': case[1]['rules']}
    return {'case': list(case)}


def cli_counts(name, r, case):
    """The command-line tool's -g / -e output (gradients and expected counts w dZ/dw / Z of two factors given with -w)
    against the API, whose gradients the rest of this check compares with the exact derivatives."""
    import os, shutil, tempfile
    from checks import c11_options as C11
    T = IR.recursive_templates()[name]
    tmp = tempfile.mkdtemp(prefix='c03cli_')
    env = dict(os.environ)
    env['PYTHONPATH'] = C11.REPO
    try:
        ws = list(IR.template_weightings(T, [Fraction(1, 4), Fraction(1, 8), Fraction(3, 16)], 3, 2))
        for gi, (irx, w) in enumerate([ws[5 % len(ws)], ws[-2]]):
            ir = dict(irx)
            ir['w'] = w
            status, mpv, rho = oracles.kleene_mp(ir, w)
            if status != 'finite' or rho is None or rho > 0.9:
                r.excl['cli: grammar not subcritical'] += 1
                continue
            g = IR.build_fgg(ir, 'real', 'float64', pres={'ids': 'asc'})
            C11.cli_w_e(ir, g, gi, tmp, env, r, case)
    finally:
        shutil.rmtree(tmp, ignore_errors=True)


def run_case(case):
    r = Res()
    if case[0] == 'cli':
        cli_counts(case[1], r, case)
        return r
    if case[0] == 'A':
        sh = case[1]
        labs, edges, ext = sh
        for names in IR.label_assignments(labs, edges, 2):
            for dom in (1, 2):
                ir = IR.single_rule_ir(sh, names, dom)
                w0 = IR.generic_weights(ir, stride=5)
                ws = [('generic', w0)] + [('zero%d' % i, IR.set_entry(w0, n, idx, Fraction(0))) for i, (n, idx) in enumerate(IR.positions(ir))]
                for wname, w in ws:
                    for sem in ('real', 'log'):
                        judge(ir, w, sem, 'fixed-point', r, ('G1', ir, tuple(sorted((k, repr(v)) for k, v in w.items())), sem, 'fixed-point'), rec=False)
    elif case[0] == 'B':
        for dom in (1, 2):
            ir = dict(case[1])
            ir['nl'] = {'T': dom}
            w = IR.generic_weights(ir, stride=5)
            for sem in ('real', 'log'):
                judge(ir, w, sem, 'fixed-point', r, ('G1', ir, tuple(sorted((k, repr(v)) for k, v in w.items())), sem, 'fixed-point'), rec=False)
    elif case[0] == 'R':
        _, name, dom, wrepr = case[:4]
        only = case[4:] if len(case) > 4 else None
        ir = dict(IR.recursive_templates()[name])
        ir['nl'] = {k: dom for k in ir['nl']}
        w = {k: eval(v, {'Fraction': Fraction}) for k, v in wrepr}
        from checks.c02_recursive import is_linear
        methods = ('fixed-point', 'newton', 'linear') if is_linear(ir) else ('fixed-point', 'newton')
        for sem in ('real', 'log'):
            for m in methods:
                if only is None or only == (sem, m):
                    judge(ir, w, sem, m, r, case[:4] + (sem, m), rec=True)
        # the precomputed-products Jacobian (j_precompute=True), on the rule class where it is defined (C11's known
        # finding K05 describes the others)
        from checks.c11_options import jp_clean
        irw = dict(ir)
        irw['w'] = w
        if jp_clean(irw) and (only is None or only == ('real', 'newton+jp')):
            judge(ir, w, 'real', 'newton', r, case[:4] + ('real', 'newton+jp'), rec=True, jp=True)
    elif case[0] == 'G1':
        _, ir, wrepr, sem, m = case
        w = {k: eval(v, {'Fraction': Fraction}) for k, v in wrepr}
        judge(ir, w, sem, m, r, case, rec=IR.is_recursive(ir))
    return r


_cache = {}


def oracle(ir, w, rec):
    k = (repr(ir['rules']), repr(sorted(ir['nl'].items())), repr(w))
    if k not in _cache:
        if len(_cache) > 64:
            _cache.clear()
        if rec:
            _cache[k] = oracles.grad_kleene_mp(dict(ir, w=w), w)
        else:
            _cache[k] = oracles.grad_nonrec(dict(ir, w=w), w)
    return _cache[k]


def judge(ir, w, sem, method, r, case, rec, jp=False):
    import fggs, torch
    ir = dict(ir)
    ir['w'] = w
    if any(x == IR.INF for name in w for x in flat(w[name])):
        r.excl['infinite weight'] += 1
        return
    val = oracle(ir, w, rec)
    if val is None:
        r.excl['least fixed point not finite / not converged'] += 1
        return
    start = ir['start']
    shape = oracles.ext_shape(ir, start)
    assts = list(oracles.all_assts(shape))
    Z = {ea: val[start][ea] for ea in assts}
    if sem == 'log' and any(float(Z[ea].v) == 0 for ea in assts):
        # log Z = -inf somewhere: cotangents touching those entries are out of scope
        cots = [('onehot', ea) for ea in assts if float(Z[ea].v) != 0]
    else:
        cots = [('onehot', ea) for ea in assts] + ([('ones', None)] if len(assts) > 1 else []) + [('signed', None)]
    S = IR.semiring(sem, 'float64')
    opts = dict(method=method, semiring=S)
    if jp:
        opts['j_precompute'] = True
    if rec:
        opts.update(tol=1e-13, kmax=3000)
    rtol = 1e-6 if rec else 1e-9
    zero_nts = sorted(nt for nt in ir['nt'] if all(float(x.v) == 0 for x in val[nt].values()))
    trig = sem + ('/rec' if rec else '/nonrec') + ('/zero-valued-nonterminal' if zero_nts else '')
    stalls = bool(zero_nts) and rec and stalls_before_keys_settle(ir, w, val)
    for cot in cots:
        key = (repr(ir['rules']), repr(sorted(ir['nl'].items())), repr(w), sem, method, cot, jp)
        try:
            g = IR.build_fgg(ir, sem, 'float64', requires_grad=True)
            z = fggs.sum_product(g, **opts).to_dense()
            if cot[0] == 'onehot':
                f = z[cot[1]] if cot[1] else z
            elif cot[0] == 'signed':      # a cotangent with negative coefficients: -1, +2, -1, +2, ...
                f = sum(signed_coef(i) * (z[ea] if ea else z) for i, ea in enumerate(assts))
            else:
                f = z.sum()
            if not f.requires_grad:
                grads = {name: None for name in g._verif_leaves}
            else:
                f.backward()
                grads = {name: (leaf.grad, kind) for name, (kind, leaf) in g._verif_leaves.items()}
        except Exception as e:
            r.exc(e, trig, case, key)
            continue
        bad = None
        nonzero = False
        for name in sorted(ir['term']):
            if not g.has_edge_label_name(name) or name not in g._verif_leaves:
                continue
            gr = grads.get(name)
            kind = g._verif_leaves[name][0]
            for idx in itertools.product(*[range(s) for s in IR.weight_shape(ir, name)]):
                if kind == 'diag' and len(set(idx)) != 1:
                    continue      # not physically backed
                want = 0.0
                wv = IR.get_entry(w[name], idx)
                if sem == 'log' and wv == 0:
                    continue      # derivative w.r.t. an infinite log-weight: out of scope
                for ea in ([cot[1]] if cot[0] == 'onehot' else assts):
                    d = Z[ea].d.get((name, idx), 0)
                    c = signed_coef(assts.index(ea)) if cot[0] == 'signed' else 1.0
                    if sem == 'real':
                        want += c * float(d)
                    else:
                        zv = float(Z[ea].v)
                        if zv == 0:
                            continue
                        want += c * float(wv) * float(d) / zv
                if gr is None or gr[0] is None:
                    got = 0.0
                else:
                    t = gr[0]
                    got = float(t[idx[0]] if kind == 'diag' else (t[idx] if idx else t))
                if want != 0:
                    nonzero = True
                if not (abs(got - want) <= rtol * max(1.0, abs(want)) + 1e-12) or got != got:
                    bad = 'd%s/d%s%r = %r, true derivative %r' % ('Z' if sem == 'real' else 'logZ', name, idx, got, want)
                    break
            if bad:
                break
        if bad:
            t2 = trig
            if stalls and method == 'fixed-point':
                t2 = trig + '/fixed-point'
            r.bad('wrong-gradient', 'sum_product.SumProduct.backward', t2, '%s/%s cotangent %r: %s; rules=%r nl=%r w=%r' % (sem, method, cot, bad, ir['rules'], ir['nl'], w), case, key)
        else:
            r.ok(key, outcome=(sem, method, 'rec' if rec else 'nonrec'), nontrivial=nonzero)


def signed_coef(i):
    return -1.0 if i % 2 == 0 else 2.0


def stalls_before_keys_settle(ir, w, val):
    """Input predicate of known finding K03: in some recursive component the Kleene iteration from zero reaches its
    fixed point exactly (two successive iterates are equal - in practice all zero) at a step at which the set of
    nonterminals that have received a value has not yet reached its final extent.  (For the template whose factor is
    a stored diagonal pattern the same can happen inside a block; there the coarser predicate 'some nonterminal is
    zero-valued' is kept.)"""
    if ir.get('patterned'):
        return True
    comps, reach = oracles.scc_oracle(IR.nt_graph(ir))
    final = {nt: {ea: Fraction(float(x.v)) for ea, x in val[nt].items()} for nt in val}
    for C in comps:
        if len(C) == 1 and next(iter(C)) not in reach[next(iter(C))]:
            continue

        def pstep(P):
            return {X for X in C if any(rule[0] == X and all(l in P for l, _ in rule[3] if l in C) for rule in ir['rules'])}
        Pinf = set()
        while pstep(Pinf) != Pinf:
            Pinf = pstep(Pinf)
        cur = dict(final)
        for X in C:
            cur[X] = {ea: Fraction(0) for ea in final[X]}
        P = set()
        for k in range(len(C) + 2):
            new = oracles.step(ir, cur, w, 'sum', sorted(C))
            P = pstep(P)
            if all(new[X] == cur[X] for X in C):
                if P != Pinf:
                    return True
                break
            cur.update(new)
    return False


def flat(x):
    if isinstance(x, list):
        for y in x:
            yield from flat(y)
    else:
        yield x
