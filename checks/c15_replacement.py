"""C15 — hyperedge replacement is typed, fresh and order-independent.

Explicit-state search: for every derivation tree (<= N rule instances) over a universal HRG that contains
all rule templates, the state space of "which pending nonterminal edges have been rewritten" is explored
exhaustively (every linear extension of the tree order), each transition being one real replace_edge call.
"""
import itertools, copy, math
from mc.core import Res, exc_kind, exc_site
from mc import canon

PID = 'C15'
LEVEL = 'model_checking'
RULE = ('universal HRG with 17 rule templates over nonterminals S(), S1(T), X(T), W(T,T) (isolated internal nodes, '
        'swapped ext order, edges attached twice to one node, unit rules, empty right-hand sides, binary recursion); '
        'every derivation tree with <= N rule instances rooted at any nonterminal; for each tree explicit-state search '
        'over all orders of rewriting the pending nonterminal edges (state = set of rewritten instances, '
        'deduplicated, canonical graph compared on every revisit); every transition is a real replace_edge call '
        'checked for: exactly the edge removed, externals identified in order, fresh copies of all other nodes/edges, '
        'labels and attachment order kept, rest of host and its ext untouched, rhs untouched; wrong-type replacement '
        'rejected without effect; histories on one replacement graph (used, external nodes reassigned in place to each of up to 12 selections, used again against edges of arity 0-3: acceptance follows the current type); all terminal states isomorphic to FGGDerivation.derive() whose assignment is total '
        'with weight = product over rule instances. Non-trivial = tree with >= 2 instances.')
ASSUMPTIONS = ['node/edge objects are kept alive during a run, so address-derived ids are not recycled',
               'isomorphic hosts have isomorphic futures under replace_edge (used to deduplicate states)']
CHUNK = 16

# templates: (lhs, node labels, ext, edges)
RULES = [
    ('S', ('T', 'T'), (), (('X', (0,)), ('X', (1,)), ('s', (0, 1)))),
    ('S', ('T', 'T', 'T'), (), (('X', (0,)), ('a', (1, 0)))),                 # node 2 isolated
    ('S', ('T',), (), (('X', (0,)), ('X', (0,)))),
    ('S', ('T', 'T'), (), (('W', (0, 1)), ('W', (1, 0)))),
    ('S', ('T',), (), (('W', (0, 0)),)),                                       # nonterminal edge attached twice
    ('S', (), (), ()),                                                         # empty graph
    ('S1', ('T', 'T'), (0,), (('X', (1,)), ('a', (0, 1)))),
    ('S1', ('T', 'T'), (1,), (('W', (0, 1)), ('e', (0,)))),
    ('X', ('T',), (0,), (('e', (0,)),)),
    ('X', ('T', 'T'), (0,), (('X', (1,)), ('X', (1,)), ('t', (0, 1)))),
    ('X', ('T', 'T', 'T'), (0,), (('t', (0, 1)), ('X', (1,)))),                # node 2 isolated
    ('X', ('T',), (0,), (('X', (0,)),)),                                       # unit rule
    ('X', ('T', 'T'), (0,), (('W', (0, 1)),)),
    ('X', ('T',), (0,), ()),                                                   # nothing but the external node
    ('W', ('T', 'T'), (0, 1), (('a', (0, 1)),)),
    ('W', ('T', 'T'), (1, 0), (('a', (0, 1)), ('e', (0,)))),                   # ext order differs from node order
    ('W', ('T', 'T', 'T'), (0, 1), (('W', (0, 2)), ('r', (2, 2)), ('a', (2, 1)))),
]
NT = {'S': (), 'S1': ('T',), 'X': ('T',), 'W': ('T', 'T')}
TERM = {'s': ('T', 'T'), 'a': ('T', 'T'), 't': ('T', 'T'), 'e': ('T',), 'r': ('T', 'T')}
DOM = 2


def bounds(tier):
    return {'max_rule_instances': 7 if tier == 'quick' else 8, 'rule_templates': len(RULES)}


# ---------------------------------------------------------------------------------------------
# derivation trees as nested tuples (rule index, (child trees in order of the rule's nonterminal edges))

def nt_edges(ri):
    return [j for j, (lab, att) in enumerate(RULES[ri][3]) if lab in NT]


def trees(nt, budget):
    for ri, rule in enumerate(RULES):
        if rule[0] != nt:
            continue
        kids = [RULES[ri][3][j][0] for j in nt_edges(ri)]
        if budget < 1 + len(kids):
            continue

        def rec(i, left):
            if i == len(kids):
                yield (), left
                return
            for sub in trees(kids[i], left - (len(kids) - i - 1)):
                for rest, l2 in rec(i + 1, left - size(sub)):
                    yield (sub,) + rest, l2
        for ch, _ in rec(0, budget - 1):
            yield (ri, ch)


def size(t):
    return 1 + sum(size(c) for c in t[1])


def gen_cases(tier, seed):
    N = bounds(tier)['max_rule_instances']
    for nt in NT:
        for t in trees(nt, N):
            yield ('tree', t)
    for ri in range(len(RULES)):
        yield ('reext', ri)


def describe(case):
    def show(t):
        r = RULES[t[0]]
        return {'rule': '%s -> %s' % (r[0], ' '.join('%s%r' % e for e in r[3]) or '(empty)'), 'children': [show(c) for c in t[1]]}
    if case[0] == 'reext':
        return {'history': 'use the right-hand side of rule %d as a replacement, reassign its external nodes, use it again' % case[1], 'rule': repr(RULES[case[1]])}
    return {'derivation_tree': show(case[1]), 'rule_instances': size(case[1])}


# ---------------------------------------------------------------------------------------------

_G = None


def grammar():
    """The universal FGG (real objects) and, per rule index, the HRGRule and its node list."""
    global _G
    if _G is None:
        import fggs, torch
        from mc import ir as IR
        ir = {'start': 'S', 'nl': {'T': DOM}, 'term': dict(TERM), 'nt': dict(NT), 'rules': RULES}
        ir['w'] = IR.generic_weights(ir)
        g = IR.build_fgg(ir, 'real')
        rules = []
        per = {}
        for r in g.all_rules():
            per.setdefault(r.lhs.name, []).append(r)
        cnt = {}
        for ri, rule in enumerate(RULES):
            k = cnt.get(rule[0], 0)
            cnt[rule[0]] = k + 1
            rules.append(per[rule[0]][k])
        # sanity: builder keeps order and shapes
        for ri, rule in enumerate(RULES):
            assert len(rules[ri].rhs.nodes()) == len(rule[1]) and len(rules[ri].rhs.edges()) == len(rule[3])
        _G = (g, rules, ir)
    return _G


def snapshot(g):
    return (tuple((n.id, n.label.name) for n in g.nodes()),
            tuple((e.id, e.label.name, e.label.is_terminal, tuple(l.name for l in e.label.type), tuple(v.id for v in e.nodes)) for e in g.edges()),
            tuple(v.id for v in g.ext))


KEEP = []   # keep every created object alive (address-derived ids must not be recycled by the harness)


def run_reext(case):
    """History on ONE replacement graph: it is used as a replacement (its type is read), its external nodes are
    reassigned in place, and it is used again - acceptance must follow its current type and the current external
    nodes must be the ones identified with the edge's attachment nodes."""
    import fggs, itertools
    from fggs import replace_edge
    r = Res()
    g, rules, ir = grammar()
    ri = case[1]
    F = copy.deepcopy(rules[ri].rhs)
    KEEP.append(F)
    T = next(iter(g.node_labels()))
    nodes = list(F.nodes())

    def host_for(arity):
        h = fggs.Graph()
        att = [fggs.Node(T) for _ in range(arity)]
        lab = fggs.EdgeLabel('H%d' % arity, [T] * arity, is_nonterminal=True)
        e = fggs.Edge(lab, att)
        h.add_edge(e)
        KEEP.extend([h, e] + att)
        return h, e, att
    exts = [list(F.ext)]
    for k in range(0, min(3, len(nodes)) + 1):
        for sel in itertools.permutations(nodes, k):
            if list(sel) != exts[0] and len(exts) < 12:
                exts.append(list(sel))
    for new_ext in exts:
        try:
            F.ext = new_ext
        except Exception as e:
            r.exc(e, 'reext', case)
            return r
        for arity in range(0, 4):
            key = ('reext', ri, tuple(nodes.index(v) for v in new_ext), arity)
            h, e, att = host_for(arity)
            n_before = len(h.nodes())
            r.trans += 1
            try:
                node_map, edge_map = replace_edge(h, e, F)
                accepted = True
            except ValueError:
                accepted = False
            except Exception as ex:
                r.exc(ex, 'reext', case, key)
                continue
            want = arity == len(new_ext)
            if accepted != want:
                r.bad('wrong-type-accepted' if accepted else 'right-type-rejected', 'derivations.replace_edge', 'reext', 'rule %d: after ext was reassigned to nodes %r (type arity %d) an edge of arity %d was %s' % (ri, key[2], len(new_ext), arity, 'accepted' if accepted else 'rejected'), case, key)
                continue
            if accepted:
                KEEP.extend(list(node_map.values()) + list(edge_map.values()))
                okmap = all(node_map[v] is a or node_map[v] == a for v, a in zip(new_ext, att))
                fresh = len(h.nodes()) == n_before + len(nodes) - len(set(new_ext))
                if not okmap or not fresh or e in list(h.edges()) or len(h.edges()) != len(F.edges()):
                    r.bad('bad-replacement', 'derivations.replace_edge', 'reext', 'rule %d with ext reassigned to %r: externals identified=%r, node count %d (expected %d), edges %d (expected %d)' % (ri, key[2], okmap, len(h.nodes()), n_before + len(nodes) - len(set(new_ext)), len(h.edges()), len(F.edges())), case, key)
                    continue
            r.ok(key, outcome=('reext', accepted), nontrivial=True)
    return r


def run_case(case):
    import fggs
    from fggs import replace_edge
    if case[0] == 'reext':
        return run_reext(case)
    r = Res()
    tree = case[1]
    g, rules, ir = grammar()
    # number the instances of the tree (preorder)
    inst = []

    def number(t, parent, slot):
        i = len(inst)
        inst.append((t[0], parent, slot, []))
        for k, c in enumerate(t[1]):
            inst[i][3].append(number(c, i, k))
        return i
    number(tree, None, None)
    n_inst = len(inst)
    root_rule = rules[inst[0][0]]
    # initial host: one edge labelled by the root's left-hand side
    host0 = fggs.Graph()
    ext_nodes = [fggs.Node(l) for l in root_rule.lhs.type]
    e0 = fggs.Edge(root_rule.lhs, ext_nodes)
    host0.add_edge(e0)
    KEEP.extend([host0, e0] + ext_nodes)
    if len(KEEP) > 200000:
        del KEEP[:100000]
    # state: frozenset of rewritten instances -> (graph, {instance: pending edge}, canonical key, ids seen so far)
    start = frozenset()
    states = {start: (host0, {0: e0}, canon.canon_graph(host0), set(i for i, _ in snapshot(host0)[0]) | {e0.id})}
    frontier = [start]
    r.states += 1
    finals = {}
    wrong_type_done = 0
    ok = True
    while frontier and ok:
        nxt = []
        for st in frontier:
            graph, pending, ckey, seen_ids = states[st]
            if not pending:
                finals[st] = ckey
                continue
            # wrong-type replacements are rejected without effect
            for i, edge in pending.items():
                for ri2, rl in enumerate(rules):
                    if rl.rhs.type != edge.label.type and ri2 in (5, 8, 14):
                        before = snapshot(graph)
                        try:
                            replace_edge(graph, edge, rl.rhs)
                            r.bad('wrong-type-accepted', 'derivations.replace_edge', 'type', 'edge of type %r replaced by rhs of type %r' % (edge.label.type, rl.rhs.type), case)
                            ok = False
                        except ValueError:
                            if snapshot(graph) != before:
                                r.bad('wrong-type-not-atomic', 'derivations.replace_edge', 'type', 'rejected replacement changed the host', case)
                                ok = False
                        except Exception as e:
                            r.exc(e, 'type', case)
                            ok = False
                        r.trans += 1
                        wrong_type_done += 1
            if not ok:
                break
            for i, edge in pending.items():
                ri = inst[i][0]
                rule = rules[ri]
                g2 = copy.deepcopy(graph)
                KEEP.append(g2)
                before = snapshot(g2)
                rhs_before = snapshot(rule.rhs)
                try:
                    node_map, edge_map = replace_edge(g2, edge, rule.rhs)
                except Exception as e:
                    r.exc(e, 'replace', case)
                    ok = False
                    break
                r.trans += 1
                KEEP.extend(list(node_map.values()) + list(edge_map.values()))
                msg = judge_step(before, snapshot(g2), rhs_before, snapshot(rule.rhs), edge, rule, node_map, edge_map, seen_ids, g2)
                if msg:
                    r.bad('bad-replacement', 'derivations.replace_edge', 'replace', '%s; tree=%r rewriting instance %d (rule %r)' % (msg, tree, i, RULES[ri]), case)
                    ok = False
                    break
                st2 = st | {i}
                new_pending = {k: v for k, v in pending.items() if k != i}
                rhs_edges = list(rule.rhs.edges())
                for slot, child in enumerate(inst[i][3]):
                    new_pending[child] = edge_map[rhs_edges[nt_edges(ri)[slot]]]
                try:
                    ck = canon.canon_graph(g2)
                except Exception as e:
                    r.exc(e, 'replace', case)
                    ok = False
                    break
                if st2 in states:
                    if states[st2][2] != ck:
                        r.bad('not-confluent', 'derivations.replace_edge', 'replace', 'two orders of rewriting the same instances %r give non-isomorphic graphs; tree=%r' % (sorted(st2), tree), case)
                        ok = False
                        break
                else:
                    new_ids = {i_ for i_, _ in snapshot(g2)[0]} | {e[0] for e in snapshot(g2)[1]}
                    states[st2] = (g2, new_pending, ck, seen_ids | new_ids)
                    nxt.append(st2)
                    r.states += 1
        frontier = nxt
    if not ok:
        return r
    key = ('tree', tree)
    if len(finals) != 1:
        r.bad('no-unique-terminal-state', 'derivations.replace_edge', 'replace', 'terminal states: %d for tree %r' % (len(finals), tree), case)
        return r
    final_key = next(iter(finals.values()))
    # derive(): same graph, total assignment, weight = product over instances
    for scheme in (0, 1):
        msg = judge_derive(g, rules, inst, final_key, scheme)
        r.trans += 1
        if msg:
            r.bad('bad-derive', 'derivations.FGGDerivation.derive', 'derive', '%s; tree=%r scheme=%d' % (msg, tree, scheme), case)
            return r
    r.ok(key, outcome=('instances', n_inst, 'states', len(states)), nontrivial=n_inst >= 2)
    return r


def judge_step(before, after, rhs_before, rhs_after, edge, rule, node_map, edge_map, seen_ids, g2):
    if rhs_after != rhs_before:
        return 'the replacement graph was modified'
    b_nodes, b_edges, b_ext = before
    a_nodes, a_edges, a_ext = after
    if a_ext != b_ext:
        return 'external nodes of the host changed'
    if not any(e[0] == edge.id for e in b_edges):
        return 'harness: edge not in host'
    if any(e[0] == edge.id for e in a_edges):
        return 'the rewritten edge is still present'
    kept_edges = [e for e in b_edges if e[0] != edge.id]
    if [e for e in a_edges if e in kept_edges] != kept_edges or any(e not in a_edges for e in kept_edges):
        return 'other edges of the host changed'
    if [n for n in a_nodes if n in b_nodes] != list(b_nodes):
        return 'nodes of the host changed or disappeared'
    rhs = rule.rhs
    ext = list(rhs.ext)
    for rn, gn in zip(ext, edge.nodes):
        if node_map.get(rn) != gn:
            return 'external node not identified with the attachment node in order'
    new_node_ids = [n[0] for n in a_nodes if n not in b_nodes]
    inner = [n for n in rhs.nodes() if n not in ext]
    if set(node_map) != set(rhs.nodes()):
        return 'node_map does not cover the replacement nodes'
    img = [node_map[n] for n in inner]
    if len({x.id for x in img}) != len(img):
        return 'two replacement nodes share a copy'
    for n, x in zip(inner, img):
        if x.label != n.label:
            return 'node label not preserved'
        if x.id in seen_ids or x.id == n.id:
            return 'copied node id %r is not fresh' % (x.id,)
        if not g2.has_node_id(x.id):
            return 'copied node missing from the host'
    if sorted(map(repr, new_node_ids)) != sorted(repr(x.id) for x in img):
        return 'new nodes in host %d != non-external replacement nodes %d' % (len(new_node_ids), len(img))
    redges = list(rhs.edges())
    if set(edge_map) != set(redges):
        return 'edge_map does not cover the replacement edges'
    new_edges = [e for e in a_edges if e not in b_edges]
    if len(new_edges) != len(redges):
        return 'new edges in host %d != replacement edges %d' % (len(new_edges), len(redges))
    ids = set()
    for re_ in redges:
        ge = edge_map[re_]
        if ge.label != re_.label:
            return 'edge label not preserved'
        if tuple(ge.nodes) != tuple(node_map[v] for v in re_.nodes):
            return 'attachment order not preserved'
        if ge.id in seen_ids or ge.id == re_.id or ge.id in ids:
            return 'copied edge id is not fresh'
        ids.add(ge.id)
        if not g2.has_edge_id(ge.id):
            return 'copied edge missing from the host'
    return None


def judge_derive(g, rules, inst, final_key, scheme):
    import fggs
    from fggs import FGGDerivation
    # build the FGGDerivation with assignments; externals inherit from the parent
    weight = [1.0]

    def mk(i, ext_vals, depth):
        ri = inst[i][0]
        rule = rules[ri]
        nodes = list(rule.rhs.nodes())
        asst = {}
        for v, x in zip(rule.rhs.ext, ext_vals):
            asst[v] = x
        for k, v in enumerate(nodes):
            if v not in asst:
                asst[v] = (depth + k + i) % DOM if scheme else 0
        for e in rule.rhs.edges():
            if e.label.is_terminal:
                weight[0] *= float(g.factors[e.label.name].weights.to_dense()[tuple(asst[v] for v in e.nodes)])
        children = {}
        redges = list(rule.rhs.edges())
        slots = list(enumerate(inst[i][3]))
        if scheme:
            slots.reverse()       # the children dict need not be filled in the order of the rule's edges
        for slot, child in slots:
            e = redges[nt_edges(ri)[slot]]
            children[e] = mk(child, tuple(asst[v] for v in e.nodes), depth + 1)
        return FGGDerivation(g, rule, asst, children)
    root_rule = rules[inst[0][0]]
    d = mk(0, tuple((k + scheme) % DOM for k in range(len(root_rule.rhs.ext))), 0)
    try:
        fg, asst = d.derive()
    except Exception as e:
        return 'derive() raised %s: %s' % (type(e).__name__, e)
    if canon.canon_graph(fg) != final_key:
        return 'derive() graph is not isomorphic to the graph obtained by step-by-step replacement'
    for v in fg.nodes():
        if v not in asst:
            return 'derive() assignment is not total (node %s missing)' % (v,)
        if not (0 <= asst[v] < DOM):
            return 'assigned value outside the domain'
    if set(asst) != set(fg.nodes()):
        return 'derive() assigns nodes that are not in the derived graph'
    w = 1.0
    for e in fg.edges():
        if not e.label.is_terminal:
            return 'nonterminal edge left in the derived graph'
        w *= float(fg.factors[e.label.name].weights.to_dense()[tuple(asst[v] for v in e.nodes)])
    if abs(w - weight[0]) > 1e-9 * max(1.0, abs(w)):
        return 'weight of the derived graph %r != product over rule instances %r' % (w, weight[0])
    return None
