"""C12 — results do not depend on how the grammar is written down.

Explicit-state view: a state is a presentation of one grammar (a point in the product of the presentation
dimensions); the search visits the default presentation, every presentation at distance 1 (one dimension moved
to every other value it can take) and, in the thorough tier, every pair of moved dimensions.
"""
import itertools, math, json, warnings, sys
from fractions import Fraction
from mc.core import Res
from mc import ir as IR, oracles

PID = 'C12'
LEVEL = 'model_checking'
RULE = ('base grammars: every single-rule FGG over Shapes(3,2,2) with >= 2 edges or >= 2 nodes, a stride of the bounded '
        'multi-nonterminal family, and the recursive templates of mc/ir.py with three or four weightings each; presentation dimensions: rule '
        'order (all permutations), node insertion order of each rule (all), edge insertion order of each rule (all), id '
        'scheme (implicit / ascending / descending / mixed), node- and edge-label renaming (order-reversing bijection), '
        'permutation of each domain\'s values together with the factor axes (all), construction path (API vs JSON vs heads-first: each rule registered before its edges are added, vs assembled on a copy of a skeleton grammar while another copy is extended too); '
        'states = presentations at distance <= 1 (thorough: <= 2) from the default; in every state sum_product under 4 '
        'semirings x methods, gradients (Real, Log) and the weight of the viterbi derivation for every start assignment '
        'must equal those of the default presentation (start tensor and gradients permuted accordingly). transitions = '
        'library queries executed.')
ASSUMPTIONS = ['iterative methods at tol 1e-13 on grammars with contraction ratio <= 0.9, compared at 1e-9; Bool identical',
               'known finding K01 (viterbi recursion on a tie through a weight-one cycle) is order dependent by nature and matched by trigger']
CHUNK = 4
ALPHA = [Fraction(0), Fraction(1, 4), Fraction(1, 2)]


def bounds(tier):
    return {'distance': 1 if tier == 'quick' else 2, 'max_rule_permutations': 24, 'domain_sizes': [2, 3]}


def bases(tier):
    out = []
    for sh in IR.shapes(3, 2, 2, ('T',), 2):
        if len(sh[1]) >= 2 or (len(sh[0]) >= 2 and sh[1]):
            for k, names in enumerate(IR.label_assignments(sh[0], sh[1], 2)):
                ir = IR.single_rule_ir(sh, names, 2 if len(sh[0]) == 3 else 3)
                ir['w'] = IR.generic_weights(ir, stride=7)
                out.append(('A', ir))
    from checks.c01_sumproduct import family_b
    for i, g in enumerate(family_b('quick')):
        if i % (97 if tier == 'quick' else 11) == 0:
            ir = dict(g)
            ir['w'] = IR.generic_weights(ir, stride=7)
            out.append(('B', ir))
    # nonterminals whose external node has no edge (pure broadcast axes), used under an arity-3 start symbol:
    #   S(m1,m2,m3) -> V(m2) U(m1) c(m3);  V(x) -> [nothing];  U(x) -> [nothing] | e(x)
    bro = {'start': 'S', 'nl': {'T': 2}, 'term': {'c': ('T',), 'e': ('T',)}, 'nt': {'S': ('T', 'T', 'T'), 'V': ('T',), 'U': ('T',)},
           'rules': [('S', ('T', 'T', 'T'), (0, 1, 2), (('V', (1,)), ('U', (0,)), ('c', (2,)))), ('V', ('T',), (0,), ()), ('U', ('T',), (0,), ()), ('U', ('T',), (0,), (('e', (0,)),))]}
    bro['w'] = IR.generic_weights(bro, stride=7)
    out.append(('D', bro))
    bro2 = dict(bro)
    bro2['rules'] = [('S', ('T', 'T', 'T'), (0, 1, 2), (('V', (1,)), ('V', (0,)), ('c', (2,)))), ('V', ('T',), (0,), ())]
    bro2['nt'] = {'S': ('T', 'T', 'T'), 'V': ('T',)}
    bro2['term'] = {'c': ('T',)}
    bro2['w'] = IR.generic_weights(bro2, stride=7)
    out.append(('D', bro2))
    # internal nodes touched by no edge, with domains of different sizes (each multiplies the rule's weight by its own size)
    iso = {'start': 'S', 'nl': {'T': 2, 'A': 3, 'B': 4}, 'term': {'c': ('T',)}, 'nt': {'S': ()},
           'rules': [('S', ('T', 'A', 'B'), (), (('c', (0,)),))]}
    iso['w'] = IR.generic_weights(iso, stride=7)
    out.append(('E', iso))
    T = IR.recursive_templates()
    for name in T:
        if name == 'lin-three':
            continue      # 13 rules: its presentation space alone would dominate the check; solver-specific, covered by C02/C03/C11
        dom = 2 if any(T[name]['term'][t] for t in T[name]['term']) else 1
        ws = list(IR.template_weightings(T[name], [Fraction(1, 4), Fraction(1, 2), Fraction(1, 8)], 3, dom))
        picks = [ws[5 % len(ws)], ws[-2], ws[21 % len(ws)]] + ([ws[1]] if tier == 'thorough' else [])
        zs = list(IR.template_weightings(T[name], [Fraction(0), Fraction(1, 4)], 3, dom))
        picks.append(zs[len(zs) // 2])
        for irx, w in picks:
            ir = dict(irx)
            ir['w'] = w
            out.append(('R', ir))
    return out


def gen_cases(tier, seed):
    for i, (kind, ir) in enumerate(bases(tier)):
        yield ('G', tier, i)


def describe(case):
    kind, ir = bases(case[1])[case[2]]
    return {'family': kind, 'rules': ir['rules'], 'domain_sizes': ir['nl']}


# ---------------------------------------------------------------------------------------------
# presentations

def dimension_values(ir):
    """dict: dimension -> list of non-default values (each a pres-dict fragment)"""
    dims = {}
    nr = len(ir['rules'])
    perms = [p for p in itertools.permutations(range(nr)) if p != tuple(range(nr))][:23]
    dims['rule_order'] = [{'rule_order': p} for p in perms]
    no, eo = [], []
    for ri, rule in enumerate(ir['rules']):
        n, m = len(rule[1]), len(rule[3])
        for p in itertools.permutations(range(n)):
            if p != tuple(range(n)):
                no.append({'node_order': {ri: p}})
        for p in itertools.permutations(range(m)):
            if p != tuple(range(m)):
                eo.append({'edge_order': {ri: p}})
    if nr > 1:
        no.append({'node_order': {ri: tuple(reversed(range(len(rule[1])))) for ri, rule in enumerate(ir['rules'])}})
        eo.append({'edge_order': {ri: tuple(reversed(range(len(rule[3])))) for ri, rule in enumerate(ir['rules'])}})
    dims['node_order'] = no
    dims['edge_order'] = eo
    dims['ids'] = [{'ids': 'asc'}, {'ids': 'desc'}, {'ids': 'mixed'}, {'ids': 'suffix'}]
    nls = sorted(ir['nl'])
    els = sorted(set(ir['term']) | set(ir['nt']))
    dims['labels'] = [{'nl_ren': {l: 'L%02d' % (50 - i) for i, l in enumerate(nls)}},
                      {'el_ren': {l: 'E%02d' % (50 - i) for i, l in enumerate(els)}},
                      {'nl_ren': {l: 'L%02d' % (50 - i) for i, l in enumerate(nls)}, 'el_ren': {l: 'E%02d' % (50 - i) for i, l in enumerate(els)}}]
    dp = []
    for l, size in ir['nl'].items():
        for p in itertools.permutations(range(size)):
            if p != tuple(range(size)):
                dp.append({'dom_perm': {l: p}})
    dims['dom_perm'] = dp
    dims['path'] = [{'json': True}, {'heads_first': True}, {'via_copy': True}]
    return dims


def merge(a, b):
    out = dict(a)
    for k, v in b.items():
        if isinstance(v, dict) and k in out:
            d = dict(out[k])
            d.update(v)
            out[k] = d
        else:
            out[k] = v
    return out


def presentations(ir, distance):
    dims = dimension_values(ir)
    yield ('default',), {}
    names = list(dims)
    for d in names:
        for k, v in enumerate(dims[d]):
            yield (d, k), v
    if distance >= 2:
        for d1, d2 in itertools.combinations(names, 2):
            for (k1, v1), (k2, v2) in itertools.product(list(enumerate(dims[d1]))[:4], list(enumerate(dims[d2]))[:4]):
                yield (d1, k1, d2, k2), merge(v1, v2)


def build(ir, sem, pres, requires_grad=False):
    import fggs
    p = {k: v for k, v in pres.items() if k != 'json'}
    g = IR.build_fgg(ir, sem, 'float64', pres=p, requires_grad=requires_grad)
    if pres.get('json'):
        leaves = g._verif_leaves
        import torch
        old = torch.get_default_dtype()
        torch.set_default_dtype(torch.float64)      # json_to_weights reads weights in the default dtype
        try:
            g2 = fggs.json_to_fgg(json.loads(json.dumps(fggs.fgg_to_json(g))))
        finally:
            torch.set_default_dtype(old)
        if requires_grad:
            # re-attach leaf tensors so that gradients can be read back
            for name in list(g2.factors):
                t = g2.factors[name].weights.to_dense().clone().double().requires_grad_(True)
                g2.factors[name].weights = t
                leaves_name = next((k for k in ir['term'] if pres.get('el_ren', {}).get(k, k) == name), name)
                leaves[leaves_name] = ('dense-of-diag' if ir.get('patterned', {}).get(leaves_name) == 'diag' else 'dense', t)
        else:
            for name in list(g2.factors):
                w = g2.factors[name].weights
                if w.physical.dtype.is_floating_point and sem != 'bool':
                    g2.factors[name].weights = w.to_dense().double()
                elif sem == 'bool':
                    g2.factors[name].weights = w.to_dense() > 0
        g2._verif_leaves = leaves
        return g2
    return g


def unpermute(t, types, pres, ir):
    """bring a tensor indexed by (permuted) domain values back to the default order"""
    import torch
    dp = pres.get('dom_perm', {})
    for ax, l in enumerate(types):
        if l in dp:
            perm = dp[l]
            inv = [0] * len(perm)
            for i, p in enumerate(perm):
                inv[p] = i
            t = t.index_select(ax, torch.tensor(inv, dtype=torch.long))
    return t


def observe(ir, pres, rec, lin, zero_nt):
    """All observations of one presentation, mapped back to default coordinates."""
    import fggs, torch
    obs = {}
    start_types = ir['nt'][ir['start']]
    methods = ('fixed-point', 'newton') + (('linear',) if lin else ())
    opts = dict(tol=1e-13, kmax=5000) if rec else {}
    ntrans = 0
    for sem in ('real', 'log', 'viterbi', 'bool'):
        S = IR.semiring(sem, 'float64')
        for m in (methods if sem != 'bool' else methods[:1]):
            try:
                g = build(ir, sem, pres)
                z = fggs.sum_product(g, method=m, semiring=S, **opts).to_dense()
                obs[('Z', sem, m)] = ('ok', unpermute(z, start_types, pres, ir))
            except Exception as e:
                obs[('Z', sem, m)] = ('exc', type(e).__name__)
            ntrans += 1
    for sem in ('real', 'log'):
        for m in methods[:2]:
            try:
                g = build(ir, sem, pres, requires_grad=True)
                z = fggs.sum_product(g, method=m, semiring=IR.semiring(sem, 'float64'), **opts).to_dense()
                if sem == 'log' and bool(torch.isinf(z).any()):
                    obs[('grad', sem, m)] = ('skip',)
                    continue
                if z.requires_grad:
                    z.sum().backward()
                gr = {}
                for name, (kind, leaf) in g._verif_leaves.items():
                    t = leaf.grad
                    if t is None:
                        gr[name] = None
                    elif kind == 'diag':
                        dpm = pres.get('dom_perm', {}).get(ir['term'][name][0])
                        gr[name] = t.clone() if dpm is None else unpermute(t, ir['term'][name][:1], pres, ir)
                    elif kind == 'dense-of-diag':
                        gr[name] = unpermute(t, ir['term'][name], pres, ir).diagonal().clone()
                    else:
                        gr[name] = unpermute(t, ir['term'][name], pres, ir)
                obs[('grad', sem, m)] = ('ok', gr)
            except Exception as e:
                obs[('grad', sem, m)] = ('exc', type(e).__name__)
            ntrans += 1
    # viterbi derivation weights
    from checks.c04_viterbi import check_deriv
    shape = oracles.ext_shape(ir, ir['start'])
    try:
        g = build(ir, 'viterbi', pres)
        S = IR.semiring('viterbi', 'float64')
        dp = pres.get('dom_perm', {})
        for ea in oracles.all_assts(shape):
            # assignment in the presentation's coordinates
            ea_p = tuple((list(dp[l]).index(x) if l in dp else x) for l, x in zip(start_types, ea))
            try:
                sys.setrecursionlimit(600)
                d = fggs.viterbi(g, ea_p, semiring=S)
                fg, asst = d.derive()
                w = 0.
                for e in fg.edges():
                    w += float(fg.factors[e.label.name].weights.to_dense()[tuple(asst[v] for v in e.nodes)])
                obs[('viterbi', ea)] = ('ok', w)
            except RecursionError:
                obs[('viterbi', ea)] = ('exc', 'RecursionError')
            except Exception as e:
                obs[('viterbi', ea)] = ('exc', type(e).__name__ + ':' + str(e)[:60])
            ntrans += 1
    except Exception as e:
        obs[('viterbi', 'build')] = ('exc', type(e).__name__)
    return obs, ntrans


def same(a, b, rtol=1e-9):
    import torch
    if a[0] != b[0]:
        return False
    if a[0] in ('exc',):
        return a[1] == b[1]
    if a[0] == 'skip':
        return True
    x, y = a[1], b[1]
    if isinstance(x, dict):
        if set(x) != set(y):
            return False
        for k in x:
            if x[k] is None or y[k] is None:
                zx = x[k] is None or not bool(x[k].any())
                zy = y[k] is None or not bool(y[k].any())
                if not (zx and zy):
                    return False
            elif not tens_same(x[k], y[k], rtol):
                return False
        return True
    if isinstance(x, float):
        return x == y or abs(x - y) <= rtol * max(1.0, abs(x))
    return tens_same(x, y, rtol)


def tens_same(x, y, rtol):
    import torch
    if x.shape != y.shape or x.dtype != y.dtype:
        return False
    if x.dtype == torch.bool:
        return bool(torch.equal(x, y))
    if not torch.equal(torch.isinf(x), torch.isinf(y)) or bool(torch.isnan(x).any()) != bool(torch.isnan(y).any()):
        return False
    m = torch.isinf(x)
    return bool(torch.equal(x[m], y[m])) and bool(torch.allclose(x[~m], y[~m], rtol=rtol, atol=1e-12, equal_nan=True))


def run_case(case):
    warnings.simplefilter('ignore')
    r = Res()
    _, tier, i = case[:3]
    kind, ir = bases(tier)[i]
    only = case[3] if len(case) > 3 else None
    rec = IR.is_recursive(ir)
    from checks.c02_recursive import is_linear
    lin = (not rec) or is_linear(ir)
    zero_nt = False
    tie = False
    if rec:
        status, mpv, rho = oracles.kleene_mp(ir, ir['w'])
        if status != 'finite' or rho is None or rho > 0.9:
            r.excl['recursive base grammar not subcritical'] += 1
            return r
        zero_nt = any(all(float(x) == 0 for x in mpv[nt].values()) for nt in ir['nt'])
        vit, _ = oracles.kleene_exact(ir, ir['w'], 'max')
        if vit is not None:
            from checks.c04_viterbi import tie_cycle
            shape = oracles.ext_shape(ir, ir['start'])
            tie = any(vit[ir['start']][ea] not in (0, IR.INF) and tie_cycle(ir, ir['w'], vit, ir['start'], ea) for ea in oracles.all_assts(shape))
    base_obs, nt0 = observe(ir, {}, rec, lin, zero_nt)
    r.trans += nt0
    r.states += 1
    for pid_, pres in presentations(ir, bounds(tier)['distance']):
        if pid_ == ('default',):
            continue
        if only is not None and pid_ != only:
            continue
        r.states += 1
        key = (repr(ir['rules']), repr(ir['w']), pid_)
        sub = ('G', tier, i, pid_)
        try:
            o, ntr = observe(ir, pres, rec, lin, zero_nt)
        except Exception as e:
            r.exc(e, 'presentation', sub, key)
            continue
        r.trans += ntr
        bad = None
        for k in base_obs:
            if k not in o:
                bad = (k, base_obs[k], None)
                break
            if k[0] == 'grad' and zero_nt and k[2] == 'fixed-point':
                continue          # K03 class (see C03)
            if not same(base_obs[k], o[k], 1e-9 if k[0] != 'viterbi' else 1e-9):
                bad = (k, base_obs[k], o[k])
                break
        if bad:
            k = bad[0]
            trig = k[0] if isinstance(k[0], str) else 'obs'
            if k[0] == 'viterbi' and tie:
                trig = 'tie-through-weight-one-cycle'
            r.bad('presentation-dependent', 'fggs.' + (k[0] if k[0] != 'Z' else 'sum_product'), trig,
                  'presentation %r (%r) changes %r: default %s, this presentation %s; rules=%r w=%r' % (pid_, pres, k, short(bad[1]), short(bad[2]), ir['rules'], ir['w']), sub, key)
        else:
            r.ok(key, outcome=pid_[0], nontrivial=True)
    return r


def short(x):
    if x is None:
        return 'missing'
    if x[0] == 'ok' and hasattr(x[1], 'tolist'):
        return repr(x[1].tolist())[:200]
    if x[0] == 'ok' and isinstance(x[1], dict):
        return repr({k: (v.tolist() if v is not None else None) for k, v in x[1].items()})[:300]
    return repr(x)[:200]
