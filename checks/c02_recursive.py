"""C02 — recursive sum-product is the least fixed point, or says otherwise."""
import itertools, math, warnings
from fractions import Fraction
from mc.core import Res, exc_kind, exc_site
from mc import ir as IR, oracles

PID = 'C02'
LEVEL = 'exploration'
RULE = ('eight recursive templates (linear / quadratic self-loop, with and without external nodes, mutual linear / '
        'non-linear recursion, a recursive SCC between non-recursive ones, a unit cycle) x domain sizes {1,2} x every '
        'weighting of the first k weight entries over {0,1/4,1/2,1,2} (so spectral radius <1, =1, >1 and weight-one '
        'cycles all occur) x {Real,Log,Viterbi,Bool} x {fixed-point,newton,linear} x tolerances; oracle = Kleene '
        'iteration from zero on the IR (Bool exact; Viterbi exact max-times; Real/Log in 50-digit arithmetic, judged only '
        'when it converges, with the contraction ratio rho measured alongside); value within the a-priori error bound; '
        'method=linear raises ValueError exactly on non-linearly-recursive grammars; starved budgets (kmax 0..3, tol '
        '1e-12) must warn whenever the result is not converged. Non-trivial = finite non-zero least fixed point.')
ASSUMPTIONS = ['Real/Log error bound: 10*tol/(1-rho) + 1e-10 relative (Log: 1e-9), plus 10x the error the exact Kleene iteration itself has at the start symbol when its recursive-component increments first drop to tol (amplification through rules above a recursive component), judged for rho <= 0.95; for rho in (0.95,1) only '
               '"never above the least fixed point" is judged', 'cases whose oracle does not converge are excluded and counted']
CHUNK = 4
ALPHA = [Fraction(0), Fraction(1, 4), Fraction(1, 2), Fraction(1), Fraction(2)]
SEMS = ('real', 'log', 'viterbi', 'bool')
METHODS = ('fixed-point', 'newton', 'linear')


def bounds(tier):
    return {'max_free_entries': 3 if tier == 'quick' else 4, 'alphabet': ['0', '1/4', '1/2', '1', '2'],
            'tolerances': [1e-3, 1e-12, 0.0], 'starved_kmax': [0, 1, 2, 3]}


def gen_cases(tier, seed):
    T = IR.recursive_templates()
    k = bounds(tier)['max_free_entries']
    for name in T:
        for dom in (1, 2):
            if dom == 2 and not any(T[name]['term'][t] for t in T[name]['term']):
                continue
            for irx, w in IR.template_weightings(T[name], ALPHA, k, dom):
                yield ('R', name, dom, tuple(sorted((kk, repr(v)) for kk, v in w.items())))


def describe(case):
    return {'template': case[1], 'domain_size': case[2], 'weights': dict(case[3])}


def is_linear(ir):
    """Every rule has at most one right-hand-side nonterminal in the SCC of its left-hand side."""
    reach = IR.reach(IR.nt_graph(ir))

    def same(x, y):
        return x == y and x in reach[x] or (y in reach[x] and x in reach[y])
    for lhs, labs, ext, edges in ir['rules']:
        if sum(1 for l, _ in edges if l in ir['nt'] and same(lhs, l)) > 1:
            return False
    return True


def run_case(case):
    r = Res()
    _, name, dom, wrepr = case[:4]
    ir = dict(IR.recursive_templates()[name])
    ir['nl'] = {k: dom for k in ir['nl']}
    w = {k: eval(v, {'Fraction': Fraction, 'inf': math.inf}) for k, v in wrepr}
    ir['w'] = w
    lin = is_linear(ir)
    only = case[4] if len(case) > 4 else None
    # oracles
    bl = oracles.bool_lfp(ir, w)
    vit, _ = oracles.kleene_exact(ir, w, 'max')
    reach = IR.reach(IR.nt_graph(ir))
    rec_nts = [x for x in ir['nt'] if x in reach[x]]
    tr = []
    status, mpv, rho = oracles.kleene_mp(ir, w, trace=tr, rec_nts=rec_nts)
    global _TRACE
    _TRACE = (tr, {ea: float(x) for ea, x in mpv[ir['start']].items()} if status == 'finite' else None)
    if status == 'undecided' and name == 'quad-scalar':
        # closed form of x = a x^2 + b at criticality (4ab = 1): x = 1/(2a); Kleene converges like 1/k there
        a, b = w['a'], w['b']
        if a != IR.INF and b != IR.INF and a > 0 and 4 * a * b == 1:
            x = 1 / (2 * a)
            status, mpv, rho = 'finite', {'S': {(): x}, 'X': {(): x}}, 1.0
    start = ir['start']
    shape = oracles.ext_shape(ir, start)
    for sem in SEMS:
        for method in METHODS:
            tols = (1e-6,) if sem in ('bool', 'viterbi') else ((1e-3, 1e-12, 0.0) if sem == 'real' else (1e-6,))
            for tol in tols:
                cfg = (sem, method, tol, 1000)
                if only is None or only == cfg:
                    run_cfg(ir, w, lin, sem, method, tol, 1000, bl, vit, status, mpv, rho, r, case[:4] + (cfg,))
    for method in ('fixed-point', 'newton'):
        for kmax in (0, 1, 2, 3):
            cfg = ('real', method, 1e-12, kmax)
            if only is None or only == cfg:
                run_cfg(ir, w, lin, 'real', method, 1e-12, kmax, bl, vit, status, mpv, rho, r, case[:4] + (cfg,))
    return r


_TRACE = ([], None)


def amplified(tol):
    """Error of the start value that an iteration stopping at increments <= tol inside the recursive components may
    legitimately leave, measured on the oracle's own Kleene iteration: the start value computed from the first iterate
    whose recursive-component increments are <= tol, against the least fixed point.  Accounts for non-recursive (or
    further recursive) rules above a recursive component amplifying its error."""
    tr, lfp = _TRACE
    if lfp is None:
        return 0.0
    for inc, zs in tr:
        if inc <= tol:
            return max([abs(lfp[ea] - zs[ea]) for ea in lfp] or [0.0])
    return 0.0


def run_cfg(ir, w, lin, sem, method, tol, kmax, bl, vit, status, mpv, rho, r, case):
    import fggs, torch
    key = case
    start = ir['start']
    shape = oracles.ext_shape(ir, start)
    S = IR.semiring(sem, 'float64')
    trig = 'linear-method' if method == 'linear' else ('starved' if kmax < 10 else 'converged')
    try:
        g = IR.build_fgg(ir, sem, 'float64')
        with warnings.catch_warnings(record=True) as rec:
            warnings.simplefilter('always')
            z = fggs.sum_product(g, method=method, semiring=S, tol=tol, kmax=kmax).to_dense()
        warned = any(issubclass(x.category, UserWarning) for x in rec)
    except ValueError as e:
        if method == 'linear' and not lin and 'not linearly recursive' in str(e):
            r.ok(key, outcome='linear-rejected', nontrivial=True)
        else:
            r.exc(e, trig, case, key)
        return
    except Exception as e:
        r.exc(e, trig, case, key)
        return
    if method == 'linear' and not lin:
        r.bad('linear-accepted-nonlinear', 'sum_product.linear', trig, 'method=linear returned %r on a grammar that is not linearly recursive: %r' % (z.tolist(), ir['rules']), case, key)
        return
    # expected value
    if sem == 'bool':
        exp = IR.expected_tensor(bl[start], shape, 'bool')
        if not IR.tensors_agree(z, exp):
            r.bad('wrong-value', 'sum_product.sum_product', trig, 'bool %s: got %r, least fixed point %r; rules=%r w=%r' % (method, z.tolist(), exp.tolist(), ir['rules'], w), case, key)
        else:
            r.ok(key, outcome=('bool', method), nontrivial=bool(exp.any()))
        return
    if sem == 'viterbi':
        if vit is None:
            r.excl['viterbi: unbounded or not attained'] += 1
            return
        exp = IR.expected_tensor(vit[start], shape, 'viterbi')
        if warned:
            r.excl['viterbi: warned (budget exhausted)'] += 1
            return
        if not IR.tensors_agree(z, exp):
            from checks.c04_viterbi import tie_cycle
            tight = any(vit[start][ea] not in (0, IR.INF) and tie_cycle(ir, w, vit, start, ea) for ea in oracles.all_assts(shape))
            if tight and method == 'newton' and not lin and bool(torch.isinf(z).any()):
                trig = 'viterbi-newton-tight-cycle'
            r.bad('wrong-value', 'sum_product.sum_product', trig, 'viterbi %s: got %r, best derivation %r; rules=%r w=%r' % (method, z.tolist(), exp.tolist(), ir['rules'], w), case, key)
        else:
            r.ok(key, outcome=('viterbi', method), nontrivial=bool((exp > -math.inf).any()))
        return
    # real / log
    if status != 'finite':
        r.excl['real/log: least fixed point %s' % status] += 1
        return
    lfp = [float(mpv[start][ea]) for ea in oracles.all_assts(shape)]
    exp = torch.tensor(lfp, dtype=torch.float64).reshape(shape)
    got = z if sem == 'real' else z.exp()
    if torch.isnan(got).any():
        r.bad('nan', 'sum_product.sum_product', trig, '%s %s: NaN in %r' % (sem, method, z.tolist()), case, key)
        return
    scale = max(1.0, float(exp.abs().max()) if exp.numel() else 1.0)
    # never above the least fixed point (all three methods approach it from below)
    if bool((got > exp * (1 + 1e-7) + 1e-9).any()):
        r.bad('above-least-fixed-point', 'sum_product.sum_product', trig, '%s %s tol=%g kmax=%d: got %r > least fixed point %r; rules=%r w=%r' % (sem, method, tol, kmax, got.tolist(), exp.tolist(), ir['rules'], w), case, key)
        return
    err = float((got - exp).abs().max()) if exp.numel() else 0.0
    if kmax < 10:
        # starved: a result that is not converged must come with a warning
        if rho is not None and rho <= 0.95:
            thresh = 1000 * tol / (1 - rho) + 1e-9 * scale
            if err > thresh and not warned:
                r.bad('silent-unconverged', 'sum_product.' + method.replace('-', '_'), trig, '%s kmax=%d tol=%g returned %r (least fixed point %r, error %g) without a warning; rules=%r w=%r' % (method, kmax, tol, got.tolist(), exp.tolist(), err, ir['rules'], w), case, key)
                return
            r.ok(key, outcome=('starved', method, 'warned' if warned else 'converged'), nontrivial=True)
        else:
            r.excl['starved: rho > 0.95'] += 1
        return
    if warned:
        r.excl['real/log: warned (budget exhausted)'] += 1
        return
    if rho == 1.0 and err > 10 * math.sqrt(max(tol, 2.3e-16)) * scale:      # a double root is only determined to sqrt(machine eps)
        r.bad('wrong-value', 'sum_product.sum_product', trig, 'critical grammar, %s %s tol=%g: got %r, least fixed point %r, error %g > 10*sqrt(tol); rules=%r w=%r' % (sem, method, tol, got.tolist(), exp.tolist(), err, ir['rules'], w), case, key)
        return
    if rho is None or rho > 0.95:
        r.excl['real/log: rho > 0.95, only monotonicity judged'] += 1
        r.ok(key, outcome=('near-critical', sem, method), nontrivial=True)
        return
    if sem == 'log':
        bound = (10 * tol / (1 - rho) + 1e-9) * scale * 1.0   # log-space tolerance = relative error
        bound = max(bound, 10 * tol / (1 - rho) * scale)
    else:
        bound = 10 * tol / (1 - rho) + 1e-10 * scale
    bound += 10 * amplified(tol)
    if method == 'linear':
        bound = 1e-8 * scale / (1 - rho)
    if err > bound:
        r.bad('wrong-value', 'sum_product.sum_product', trig, '%s %s tol=%g: got %r, least fixed point %r, error %g > bound %g (rho=%.3f); rules=%r w=%r' % (sem, method, tol, got.tolist(), exp.tolist(), err, bound, rho, ir['rules'], w), case, key)
        return
    # structure: exact zeros of the least fixed point are exact zeros of the result
    zero_mask = exp == 0
    if bool((got[zero_mask] != 0).any()):
        r.bad('wrong-value', 'sum_product.sum_product', trig, '%s %s: non-zero where the least fixed point is zero: %r' % (sem, method, got.tolist()), case, key)
        return
    r.ok(key, outcome=(sem, method, 'rho<%.1f' % (math.ceil(rho * 10) / 10 if rho else 0)), nontrivial=bool((exp > 0).any()))
