"""C14 — JSON serialisation round-trips grammars and weights."""
import itertools, json, math
from fractions import Fraction
from mc.core import Res
from mc import ir as IR, canon, patterns as P

PID = 'C14'
LEVEL = 'exploration'
RULE = ('(A) every single-rule FGG S -> shape over Shapes(3,2,2) (start arity 0-2) x every mask of explicit/implicit '
        'node and edge ids (explicit ids chosen so that string order differs from insertion order) x {finite, range} '
        'domains x weight representation (nested list, Tensor, every PatternedTensor pattern of the weight shape '
        'incl. diagonal / permuted / stride-0 / one-hot, with inf and 0 entries): json.dumps accepted, reloaded grammar '
        'isomorphic rule by rule in order with explicit ids kept, domains equal, dense weights equal, sum-product equal, '
        'second round trip verbatim when all ids are explicit; (B) multi-rule grammars with several rules per '
        'nonterminal, unreachable and rule-less nonterminals; (C) every json_to_weights specification (physical rank '
        '<= 2, expand absent/[2], vaxes = all axis terms of weight <= 3, default absent/7) against a harness '
        'interpreter of the axis grammar; (D) every out-of-range attachment / external number in {-n-1,-1,n,n+1} at '
        'every position must raise ValueError. Non-trivial = grammar with >= 1 edge / spec with a non-trivial term.')
ASSUMPTIONS = ['isomorphism via mc.canon with persisted ids as part of the node/edge labels']
CHUNK = 16


def bounds(tier):
    return {'shapes': (3, 2, 2) if tier == 'quick' else (3, 3, 2), 'domain_size': 2, 'spec_phys_shapes': [(2,), (3,), (2, 3)]}


def gen_cases(tier, seed):
    N, E, A = bounds(tier)['shapes']
    for sh in IR.shapes(N, E, A, ('T',), max_ext=2):
        yield ('A', sh)
    from checks.c19_scc import grammar_irs
    for i, g in enumerate(grammar_irs('quick')):
        if i % 7 == 0 or tier == 'thorough':
            yield ('B', g)
    for name in ('dup-production', 'lin-two-rules', 'dead-rule-internal'):
        yield ('B', template_ir(name))
    for pshape in bounds(tier)['spec_phys_shapes']:
        for expand in (None, (2,)):
            for nd in (1, 2):
                yield ('C', pshape, expand, nd)
    for sh in IR.shapes(3, 2, 2, ('T',), max_ext=2):
        if sh[1] or sh[2]:
            yield ('D', sh)
    for wshape in E_SHAPES:
        yield ('E', wshape)


def template_ir(name):
    ir = dict(IR.recursive_templates()[name])
    ir['nl'] = {k: 2 for k in ir['nl']}
    ir['w'] = IR.generic_weights(ir, values=[Fraction(1, 4), Fraction(1, 8), Fraction(1, 16), Fraction(3, 16), Fraction(1, 32)])
    return ir


def describe(case):
    return {'part': case[0], 'input': list(case[1:])}


def run_case(case):
    r = Res()
    if case[0] == 'A':
        part_a(case[1], r, case)
    elif case[0] == 'B':
        part_b(case[1], r, case)
    elif case[0] == 'C':
        part_c(case[1], case[2], case[3], r, case)
    elif case[0] == 'A1':
        judge_roundtrip(build_a(*case[1:]), case[2] == (1 << len(case[1][0])) - 1 and case[3] == (1 << len(case[1][1])) - 1, r, case, case)
    elif case[0] == 'E':
        part_e(case[1], r, case)
    else:
        part_d(case[1], r, case)
    return r


# ---------------------------------------------------------------------------------------------

def rule_canon(rule):
    """Canonical form of a rule where persisted ids are part of the labels."""
    nodes = list(rule.rhs.nodes())
    idx = {v.id: i for i, v in enumerate(nodes)}
    labs = tuple((v.label.name, ('id', v.id) if v.persist_id else ('noid',)) for v in nodes)
    edges = tuple(((e.label.name, bool(e.label.is_terminal), tuple(l.name for l in e.label.type), ('id', e.id) if e.persist_id else ('noid',)),
                   tuple(idx[v.id] for v in e.nodes)) for e in rule.rhs.edges())
    ext = tuple(idx[v.id] for v in rule.rhs.ext)
    return (rule.lhs.name, tuple(l.name for l in rule.lhs.type), canon.canon(labs, edges, ext))


def weight_variants(shape, k):
    """(name, weights object, dense tensor) for one factor; k makes values distinct between factors."""
    import torch
    from fggs.indices import PatternedTensor
    n = 1
    for s in shape:
        n *= s
    base = (torch.arange(1., n + 1.) * (k + 1)).reshape(shape)
    if n:
        base.view(-1)[0] = math.inf
    if n > 1:
        base.view(-1)[1] = 0.
    out = [('tensor', base, base), ('list', base.tolist(), base)]
    for p in P.patterns_for_shape(shape):
        for storage in ('contig', 'permuted', 'expanded'):
            if storage != 'contig' and len(p[0]) < 2:
                continue
            t = P.instantiate(p, 0., torch.get_default_dtype(), storage=storage, offset=k)
            if t.physical.numel() and storage == 'contig':
                ph = t.physical.clone().contiguous()
                ph.view(-1)[0] = math.inf
                t = PatternedTensor(ph, t.paxes, t.vaxes, 0.)
            out.append(('pattern %s %s' % (P.show(p), storage), t, t.to_dense()))
    if len(shape) == 2 and shape[0] == shape[1]:
        out.append(('tensor.t()', PatternedTensor(base).T if hasattr(PatternedTensor(base), 'T') else base.t(), base.t()))
    return out


def build_a(sh, nid, eid, domcls, wsel):
    """S -> shape; node i has explicit id iff bit i of nid; ids 'n9','n10','n11' sort differently from insertion."""
    import fggs, torch
    labs, edges, ext = sh
    g = fggs.FGG(fggs.EdgeLabel('S', [fggs.NodeLabel(labs[i]) for i in ext], is_nonterminal=True))
    rhs = fggs.Graph()
    ns = [rhs.new_node(l, id=('n%d' % (9 + i) if nid >> i & 1 else None)) for i, l in enumerate(labs)]
    names = []
    for j, e in enumerate(edges):
        nm = 'f' + ''.join(map(str, e))
        names.append(nm)
        rhs.new_edge(nm, [ns[i] for i in e], is_terminal=True, id=('e%d' % (9 + j) if eid >> j & 1 else None))
    rhs.ext = [ns[i] for i in ext]
    g.new_rule('S', rhs)
    dom = 2
    if domcls == 'finite':
        g.new_finite_domain('T', ['v%d' % i for i in range(dom)])
    elif domcls == 'finite-int':
        g.new_finite_domain('T', list(range(dom)))
    else:
        g.add_domain(fggs.NodeLabel('T'), fggs.RangeDomain(dom))
    for k, nm in enumerate(sorted(set(names))):
        ar = len(nm) - 1
        variants = weight_variants((dom,) * ar, k)
        name, w, dense = variants[wsel % len(variants)]
        g.new_finite_factor(nm, w)
    return g


def part_a(sh, r, case):
    labs, edges, ext = sh
    nvar = max([len(weight_variants((2,) * len(e), 0)) for e in edges] + [1])
    for nid in range(1 << len(labs)):
        for eid in range(1 << len(edges)):
            for domcls in ('finite', 'finite-int', 'range'):
                # all weight representations under the default ids/domains; default representation elsewhere
                wsels = range(nvar) if (domcls == 'finite' and nid in (0, (1 << len(labs)) - 1) and eid in (0, (1 << len(edges)) - 1)) else (0,)
                for wsel in wsels:
                    sub = ('A1', sh, nid, eid, domcls, wsel)
                    try:
                        g = build_a(sh, nid, eid, domcls, wsel)
                    except Exception as e:
                        r.exc(e, 'build', sub, sub)
                        continue
                    allx = nid == (1 << len(labs)) - 1 and eid == (1 << len(edges)) - 1
                    judge_roundtrip(g, allx, r, sub, sub, nontrivial=bool(edges))


def judge_roundtrip(g, all_explicit, r, case, key, nontrivial=True):
    import fggs, torch
    try:
        j = fggs.fgg_to_json(g)
        s = json.dumps(j)
        g2 = fggs.json_to_fgg(json.loads(s))
    except Exception as e:
        r.exc(e, 'roundtrip', case, key)
        return
    msgs = []
    if g2.start != g.start:
        msgs.append('start differs')
    if set(g2.terminals()) != set(g.terminals()) or set(g2.nonterminals()) != set(g.nonterminals()):
        msgs.append('labels/types differ')
    for nt in g.nonterminals():
        a = [rule_canon(x) for x in g.rules(nt)]
        b = [rule_canon(x) for x in g2.rules(nt)]
        if a != b:
            msgs.append('rules of %s differ: %r vs %r' % (nt.name, a, b))
    if set(g.domains) != set(g2.domains) or any(g.domains[k] != g2.domains[k] for k in g.domains):
        msgs.append('domains differ')
    if set(g.factors) != set(g2.factors):
        msgs.append('factor names differ')
    else:
        for k in g.factors:
            w1, w2 = g.factors[k].weights.to_dense(), g2.factors[k].weights.to_dense()
            if w1.shape != w2.shape or not torch.equal(w1, w2):
                msgs.append('weights of %s differ: %r vs %r' % (k, w1.tolist(), w2.tolist()))
    if not msgs:
        try:
            z1 = fggs.sum_product(g).to_dense()
            z2 = fggs.sum_product(g2).to_dense()
            if not IR.tensors_agree(z2, z1, 'float32'):
                msgs.append('sum-product differs: %r vs %r' % (z1.tolist(), z2.tolist()))
        except Exception as e:
            r.exc(e, 'roundtrip-sum-product', case, key)
            return
    if not msgs and all_explicit:
        j2 = fggs.fgg_to_json(g2)
        if json.dumps(j2, sort_keys=True) != json.dumps(j, sort_keys=True):
            msgs.append('second round trip is not verbatim')
    if not msgs:
        # history: serialise, change a weight tensor in place (as an optimiser step does), serialise again
        for k in g.factors:
            ph = g.factors[k].weights.physical
            if ph.numel() == 0 or not ph.is_contiguous() or ph.dtype == torch.bool:
                continue
            try:
                with torch.no_grad():
                    ph.mul_(2.)
                w3 = fggs.json_to_fgg(json.loads(json.dumps(fggs.fgg_to_json(g)))).factors[k].weights.to_dense()
                now = g.factors[k].weights.to_dense()
                if w3.shape != now.shape or not torch.equal(w3, now):
                    msgs.append('after an in-place update of %s the JSON still carries %r, the grammar has %r' % (k, w3.tolist(), now.tolist()))
                with torch.no_grad():
                    ph.div_(2.)
            except Exception as e:
                r.exc(e, 'roundtrip-after-update', case, key)
                return
            break
    if msgs:
        r.bad('roundtrip-differs', 'formats.fgg_to_json/json_to_fgg', 'roundtrip', '; '.join(msgs)[:700], case, key)
    else:
        r.ok(key, outcome='roundtrip-ok', nontrivial=nontrivial)


def part_b(gir, r, case):
    for ids in ('implicit', 'asc', 'desc', 'mixed'):
        try:
            g = IR.build_fgg(gir, 'real', 'float32', pres={'ids': ids})
        except Exception as e:
            r.exc(e, 'build', case, ('B', tuple(gir['rules']), ids))
            continue
        judge_roundtrip(g, ids in ('asc', 'desc'), r, case, ('B', tuple(gir['rules']), ids), nontrivial=True)
        if ids in ('asc', 'desc'):
            # a JSON file may list one production twice (it then counts twice): reading it keeps both copies and
            # writing it again reproduces the file
            import fggs
            key = ('B-dup', tuple(gir['rules']), ids)
            try:
                j = json.loads(json.dumps(fggs.fgg_to_json(g)))
                for k in range(len(j['grammar']['rules'])):
                    j2 = json.loads(json.dumps(j))
                    j2['grammar']['rules'].insert(k + 1, json.loads(json.dumps(j2['grammar']['rules'][k])))
                    g2 = fggs.json_to_fgg(j2)
                    want = {}
                    for rr in j2['grammar']['rules']:
                        want[rr['lhs']] = want.get(rr['lhs'], 0) + 1
                    got = {nt.name: len(g2.rules(nt)) for nt in g2.nonterminals() if len(g2.rules(nt))}
                    back = fggs.fgg_to_json(g2)
                    if got != want:
                        r.bad('roundtrip-differs', 'formats.json_to_hrg', 'duplicate-production', 'file lists rules per lhs %r, json_to_fgg produced %r (rule %d duplicated)' % (want, got, k), case, key + (k,))
                    elif json.dumps(back, sort_keys=True) != json.dumps(j2, sort_keys=True):
                        r.bad('roundtrip-differs', 'formats.fgg_to_json/json_to_fgg', 'duplicate-production', 'a file with rule %d listed twice is not reproduced verbatim' % k, case, key + (k,))
                    else:
                        r.ok(key + (k,), outcome='dup-ok', nontrivial=True)
            except Exception as e:
                r.exc(e, 'duplicate-production', case, key)


# ---------------------------------------------------------------------------------------------
# json_to_weights specifications

def axis_terms(npx, w):
    if w == 1:
        for i in range(npx):
            yield i
        yield []
        return
    for t in axis_terms(npx, w - 1):
        for b, a in ((0, 1), (1, 0), (1, 1), (0, 0)):
            yield {"before": b, "term": t, "after": a}
    if w == 3:
        for t1 in axis_terms(npx, 1):
            for t2 in axis_terms(npx, 1):
                if t1 != [] and t2 != []:
                    yield [t1, t2]


def interp(rr, sizes):
    """(numel, offset, {physical axis: stride}) of an axis term in JSON form."""
    if isinstance(rr, list):
        off, st, n = 0, {}, 1
        for f in rr:
            fn, fo, fs = interp(f, sizes)
            off = off * fn + fo
            st = {k: v * fn for k, v in st.items()}
            for k, v in fs.items():
                st[k] = st.get(k, 0) + v
            n *= fn
        return n, off, st
    if isinstance(rr, dict):
        n, o, s = interp(rr["term"], sizes)
        return rr["before"] + n + rr["after"], o + rr["before"], s
    return sizes[rr], 0, {rr: 1}


def part_c(pshape, expand, nd, r, case):
    import torch, fggs
    sizes = list(expand or []) + list(pshape)
    npx = len(sizes)
    phys = torch.arange(1., math.prod(pshape) + 1).reshape(pshape)
    physd = phys.expand(sizes) if expand else phys
    allterms = [t for w in (1, 2, 3) for t in axis_terms(npx, w)]
    for vaxes in itertools.product(allterms, repeat=nd):
        used = []

        def fv(x):
            if isinstance(x, list):
                for f in x:
                    fv(f)
            elif isinstance(x, dict):
                fv(x["term"])
            else:
                used.append(x)
        for v in vaxes:
            fv(v)
        if sorted(used) != list(range(npx)):     # each physical axis exactly once (injective patterns only)
            continue
        for default, as_int in ((None, False), (7., False), (0.5, True), (math.inf, True)):
            spec = {"physical": (phys.to(torch.int64).tolist() if as_int else phys.tolist()), "vaxes": list(vaxes)}   # JSON integers are legal numbers
            if expand:
                spec["expand"] = list(expand)
            if default is not None:
                spec["default"] = default
            key = ('C', json.dumps(spec, sort_keys=True))
            try:
                t = fggs.json_to_weights(json.loads(json.dumps(spec).replace('Infinity', '1e999'))).to_dense()
            except Exception as e:
                r.exc(e, 'json_to_weights', ('Cspec', json.dumps(spec)), key)
                continue
            info = [interp(v, sizes) for v in vaxes]
            exp = torch.full([i[0] for i in info], 0. if default is None else default)
            for idx in itertools.product(*[range(s) for s in sizes]):
                pos = tuple(o + sum(st.get(k, 0) * idx[k] for k in range(npx)) for _, o, st in info)
                exp[pos] = physd[idx]
            if t.shape != exp.shape or not torch.equal(t, exp):
                r.bad('spec-misread', 'formats.json_to_weights', 'json_to_weights', 'spec %s denotes %r, got %r' % (json.dumps(spec), exp.tolist(), t.tolist()), ('Cspec', json.dumps(spec)), key)
            else:
                r.ok(key, outcome='spec-ok', nontrivial=any(not isinstance(v, int) for v in vaxes))
    # plain nested lists and an absent vaxes key
    for spec, exp in (([[1., 2.], [3., math.inf]], torch.tensor([[1., 2.], [3., math.inf]])), (5., torch.tensor(5.))):
        try:
            t = fggs.json_to_weights(spec).to_dense()
            if t.shape != exp.shape or not torch.equal(t, exp):
                r.bad('spec-misread', 'formats.json_to_weights', 'json_to_weights', 'spec %r' % (spec,), case)
            else:
                r.ok(None, outcome='spec-ok', nontrivial=False)
        except Exception as e:
            r.exc(e, 'json_to_weights', case)


def run_cspec(case):
    import fggs
    r = Res()
    spec = json.loads(case[1])
    part_c_single = fggs.json_to_weights(spec).to_dense()
    r.ok(None, outcome='replayed')
    return r


# ---------------------------------------------------------------------------------------------
# malformed input

def part_d(sh, r, case):
    import fggs
    labs, edges, ext = sh
    names = tuple('f' + ''.join(map(str, e)) for e in edges)
    gir = IR.single_rule_ir(sh, names, 2)
    gir['w'] = IR.generic_weights(gir)
    g = IR.build_fgg(gir, 'real', 'float32', pres={'ids': 'asc'})
    j = json.loads(json.dumps(fggs.fgg_to_json(g)))
    n = len(labs)
    rule = j['grammar']['rules'][0]['rhs']
    spots = [('externals', None, k) for k in range(len(rule['externals']))]
    for ei, e in enumerate(rule['edges']):
        spots += [('edges', ei, k) for k in range(len(e['attachments']))]
    for spot in spots:
        for bad in (-n - 1, -1, n, n + 1):
          for strip in (False, True):
            jj = json.loads(json.dumps(j))
            rr = jj['grammar']['rules'][0]['rhs']
            if strip:         # the same file with implicit node / edge ids
                for x in rr['nodes'] + rr['edges']:
                    x.pop('id', None)
            if spot[0] == 'externals':
                rr['externals'][spot[2]] = bad
            else:
                rr['edges'][spot[1]]['attachments'][spot[2]] = bad
            key = ('D', sh, spot, bad, strip)
            for fn in ('json_to_fgg', 'json_to_hrg'):
                try:
                    if fn == 'json_to_fgg':
                        fggs.json_to_fgg(jj)
                    else:
                        fggs.json_to_hrg(jj['grammar'])
                    r.bad('out-of-range-accepted', 'formats.json_to_hrg', 'malformed', '%s accepted node number %d (of %d nodes) at %r' % (fn, bad, n, spot), case, key)
                except ValueError:
                    r.ok(key + (fn,), outcome='rejected', nontrivial=True)
                except Exception as e:
                    r.exc(e, 'malformed', case, key)


# weights with unit axes and non-zero defaults

E_SHAPES = [(1, 2, 2), (2, 1, 2), (2, 2, 1), (1, 3), (3, 1), (1, 1, 2), (1, 2), (2, 1), (1,), (1, 1)]


def part_e(wshape, r, case):
    """A factor whose weights are any pattern of wshape (size-1 domains included) with default in {0, 0.5, +-inf}:
    to_json writes the denoted tensor and json_to_fgg reads it back."""
    import torch, fggs
    from fggs.indices import PatternedTensor
    from fggs.factors import FiniteFactor
    from fggs.domains import RangeDomain
    doms = [RangeDomain(n) for n in wshape]
    for p in P.patterns_for_shape(wshape):
        for default in (0., 0.5, math.inf, -math.inf):
            for storage in ('contig', 'permuted', 'expanded'):
                if storage != 'contig' and len(p[0]) < 2:
                    continue
                key = ('E', wshape, p, default, storage)
                try:
                    t = P.instantiate(p, default, torch.float64, storage=storage)
                    dense = t.to_dense()
                    j = json.loads(json.dumps(FiniteFactor(doms, t).to_json()))
                    old = torch.get_default_dtype()
                    torch.set_default_dtype(torch.float64)
                    try:
                        back = fggs.formats.json_to_weights(j['weights'])
                    finally:
                        torch.set_default_dtype(old)
                    bd = back.to_dense() if isinstance(back, PatternedTensor) else torch.as_tensor(back)
                    if tuple(bd.shape) != tuple(dense.shape) or not torch.equal(bd, dense):
                        r.bad('weights-not-preserved', 'factors.weights_to_json', 'unit-axis', '%s default %r %s: wrote %r, denotes %r' % (P.show(p), default, storage, j['weights'], dense.tolist()), case, key)
                    else:
                        r.ok(key, outcome='weights', nontrivial=dense.numel() > 0)
                except Exception as e:
                    r.exc(e, 'unit-axis', case, key)
