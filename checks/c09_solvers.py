"""C09 — semiring linear solvers return the least solution of x = A x + b."""
import itertools, math, warnings
from fractions import Fraction
from mc.core import Res
from mc import patterns as P, oracles, ptinv, ir as IR

PID = 'C09'
LEVEL = 'exploration'
RULE = ('(S) Semiring.solve on every n x n system for n in {1,2} over {0,1/4,1/2,1,2,inf} (n=3 over {0,1/2,1} in the thorough '
        'tier), b a vector and an n x 2 matrix, in Real / Log / Viterbi / Bool, against exact least-solution oracles (SCC '
        'decomposition, rho<1 decided by leading principal minors, Gaussian elimination in rationals; max-plus Bellman-Ford; '
        'Boolean closure); (PS) PatternedTensor.solve on operands sharing PhysicalAxis objects: a[(x*y),(z*w)], b[(u*v)] over three size-2 axes, all 9^3 choices, shared vs separate axis objects, vector and matrix b; (P) PatternedTensor.solve on every square same-typed (A, b) pattern pair of the catalogue '
        '(subcritical values, plus rho=1 and rho>1 scalings) in the four semirings against Semiring.solve on the dense '
        'tensors; (M) multi_solve / multi_mv on 2 and 3 block indices with EVERY presence pattern of the k^2 blocks of A and '
        'k blocks of b, mixed block shapes (scalars, vectors, size-1, rank-2 indices), transpose on/off, both key orders, '
        'generic subcritical entries plus deviations making a diagonal block critical / supercritical / infinite, 4 '
        'semirings, against the oracle on the assembled dense system; (MR) multi_mv on rectangular block matrices whose row and column index sets share keys with blocks of different sizes: 3 shape pairs x all 16 presence patterns of A x all presence patterns of b (with +inf entries) x transpose x 4 semirings x 2 key orders, against the dense product; arguments compared bit-for-bit before and after. '
        'Non-trivial = system whose solution is not just b.')
ASSUMPTIONS = ['Real/Log compared at rtol 1e-9 with the exact solution; infinities and zeros exact',
               'PatternedTensor.solve is compared with the dense semiring solver, which part (S) validates']
CHUNK = 4
inf = math.inf
AL = [Fraction(0), Fraction(1, 4), Fraction(1, 2), Fraction(1), Fraction(2), inf]
SEMS = ('real', 'log', 'viterbi', 'bool')


def bounds(tier):
    return {'dense_n': [1, 2] + ([3] if tier == 'thorough' else []), 'alphabet': ['0', '1/4', '1/2', '1', '2', 'inf'],
            'multi_keys': [2, 3], 'multi_shapes': ['((),(),())', '((2,),(),(1,))', '((2,),(2,2))']}


def gen_cases(tier, seed):
    for n in (1, 2):
        for Aflat in itertools.product(range(len(AL)), repeat=n * n):
            yield ('S', n, Aflat)
    if tier == 'thorough':
        for Aflat in itertools.product((0, 2, 3), repeat=9):
            yield ('S3', Aflat)
    cat = P.catalogue(2, 2, 18)
    for i, tt in enumerate(cat):
        if len(tt) == 2 and tt[0] == tt[1]:
            for lo in range(0, len(cat[tt]), 2):
                yield ('P', i, lo, lo + 2)
    yield ('P3',)
    yield ('S32',)
    for lo in range(9):
        yield ('PS', lo, lo + 1)
    for si in range(3):
        nk = 3 if si < 2 else 2
        for amask in range(1 << (nk * nk)):
            yield ('M', si, amask)
    for ri in range(len(RSHAPES)):
        for amask in range(1 << 4):
            yield ('MR', ri, amask)


def describe(case):
    if case[0] == 'S':
        n = case[1]
        return {'part': 'Semiring.solve', 'A': [[str(AL[case[2][i * n + j]]) for j in range(n)] for i in range(n)], 'b': 'every vector over the alphabet'}
    if case[0] == 'P':
        cat = P.catalogue(2, 2, 18)
        return {'part': 'PatternedTensor.solve', 'index_types': list(cat)[case[1]]}
    if case[0] == 'MR':
        return {'part': 'multi_mv, rectangular block matrix', 'row_shapes': RSHAPES[case[1]][0], 'column_shapes': RSHAPES[case[1]][1], 'A_block_presence_mask': case[2]}
    if case[0] == 'M':
        return {'part': 'multi_solve/multi_mv', 'shapes': MSHAPES[case[1]], 'A_block_presence_mask': case[2]}
    return {'case': list(case)}


def enc(v, sem):
    if sem == 'real':
        return inf if v == inf else float(v)
    if sem == 'bool':
        return bool(v == inf or v > 0)
    if v == inf:
        return inf
    return math.log(v) if v > 0 else -inf


def oracle_dense(A, b, sem):
    """A: n x n list of Fraction/inf (real encoding), b: list; returns expected solution in the encoding of sem."""
    n = len(b)
    if sem in ('real', 'log'):
        x = oracles.least_solution_real(A, b)
        return [enc(v, sem) for v in x]
    if sem == 'bool':
        return oracles.least_solution_bool([[enc(v, 'bool') for v in row] for row in A], [enc(v, 'bool') for v in b])
    return oracles.least_solution_maxplus([[enc(v, 'viterbi') for v in row] for row in A], [enc(v, 'viterbi') for v in b])


def close_list(got, want, sem):
    if len(got) != len(want):
        return False
    for g, w in zip(got, want):
        if sem == 'bool':
            if bool(g) != bool(w):
                return False
            continue
        if g != g:
            return False
        if w in (inf, -inf) or g in (inf, -inf):
            if g != w:
                return False
            continue
        if abs(g - w) > 1e-9 * max(1.0, abs(w)):
            return False
    return True


def run_case(case):
    warnings.simplefilter('ignore')
    ptinv.install()
    r = Res()
    if case[0] == 'S':
        part_s(case[1], [AL[i] for i in case[2]], AL, r, case)
    elif case[0] == 'S3':
        part_s(3, [AL[i] for i in case[1]], [AL[0], AL[2], AL[3]], r, case)
    elif case[0] == 'P':
        part_p(case[1], r, case, case[2] if len(case) > 2 else 0, case[3] if len(case) > 3 else None)
    elif case[0] == 'P3':
        part_p3(r, case)
    elif case[0] == 'PS':
        part_ps(r, case)
    elif case[0] == 'S32':
        part_s32(r, case)
    elif case[0] == 'M':
        part_m(case[1], case[2], r, case)
    elif case[0] == 'MR':
        part_mr(case[1], case[2], r, case)
    elif case[0] == 'S1':
        _, n, Aflat, bvals, sem, two = case
        judge_s(n, list(Aflat), list(bvals), sem, two, r, case)
    return r


def part_s(n, Aflat, balpha, r, case):
    for bvals in itertools.product(balpha, repeat=n):
        for sem in SEMS:
            judge_s(n, Aflat, list(bvals), sem, False, r, ('S1', n, tuple(Aflat), tuple(bvals), sem, False))
        if n == 2 and bvals[0] != bvals[1]:
            judge_s(n, Aflat, list(bvals), 'real', True, r, ('S1', n, tuple(Aflat), tuple(bvals), 'real', True))
            judge_s(n, Aflat, list(bvals), 'viterbi', True, r, ('S1', n, tuple(Aflat), tuple(bvals), 'viterbi', True))


def judge_s(n, Aflat, bvals, sem, two, r, case):
    import torch
    A = [Aflat[i * n:(i + 1) * n] for i in range(n)]
    S = IR.semiring(sem, 'float64')
    dt = torch.bool if sem == 'bool' else torch.float64
    At = torch.tensor([[enc(v, sem) for v in row] for row in A], dtype=dt)
    if two:
        b2 = [bvals, list(reversed(bvals))]
        bt = torch.tensor([[enc(b2[c][i], sem) for c in range(2)] for i in range(n)], dtype=dt)
    else:
        bt = torch.tensor([enc(v, sem) for v in bvals], dtype=dt)
    A0, b0 = At.clone(), bt.clone()
    key = case
    try:
        x = S.solve(At, bt)
    except Exception as e:
        r.exc(e, sem, case, key)
        return
    if not (torch.equal(At, A0) and torch.equal(bt, b0)):
        r.bad('argument-modified', 'semirings.Semiring.solve', sem, 'solve changed its arguments: A=%r b=%r' % (A, bvals), case, key)
        return
    cols = [bvals, list(reversed(bvals))] if two else [bvals]
    for c, bcol in enumerate(cols):
        want = oracle_dense(A, bcol, sem)
        got = (x[:, c] if two else x).tolist()
        if not close_list(got, want, sem):
            trig = sem
            if sem == 'log' and any(k >= 3 for k in oracles.critical_block_sizes(A, bcol)):
                trig = 'log/critical-block>=3'      # known finding K06 (input predicate: an irreducible block with rho exactly 1)
            r.bad('not-least-solution', 'semirings.' + type(S).__name__ + '.solve', trig, '%s: A=%r b=%r: solve gives %r, least solution %r' % (sem, [[str(v) for v in row] for row in A], [str(v) for v in bcol], got, want), case, key)
            return
    r.ok(key, outcome=(sem, 'inf' if any(w == inf for w in want if not isinstance(w, bool)) else 'finite'), nontrivial=any(v != 0 for v in Aflat))


# ---------------------------------------------------------------------------------------------

def part_p(i, r, case, lo=0, hi=None):
    import torch
    from fggs.indices import PatternedTensor
    cat = P.catalogue(2, 2, 18)
    tt = list(cat)[i]
    bl = cat.get((tt[0],), [])
    bl2 = cat.get((tt[0], P.A(2)), [])[:6]
    N = P.numel(tt[0])
    for pa in cat[tt][lo:hi]:
        for scale in ('sub', 'crit', 'super'):
            a0 = P.instantiate(pa, 0.)
            s = float(a0.physical.sum()) if a0.physical.numel() else 1.0
            # row sums bounded by the physical sum: sub -> rho < 1/2
            f = {'sub': 1.0 / (2 * s + 1), 'crit': 1.0, 'super': 2.0}[scale]
            if scale == 'crit':
                # make every physical entry 1/N: a doubly-substochastic-like matrix with rho possibly = 1
                phys = torch.full_like(a0.physical, 1.0 / max(N, 1))
            else:
                phys = a0.physical * f
            for pb in bl + bl2:
                for sem in SEMS + (('real+default', 'log+default') if scale == 'sub' else ()):
                    key = (case, pa, pb, scale, sem)
                    adef = None
                    if sem.endswith('+default'):
                        # the matrix has a non-zero default: every entry the pattern does not back is 1/(8N)
                        sem = sem[:-len('+default')]
                        adef = 1.0 / (8 * max(N, 1))
                    S = IR.semiring(sem, 'float64')
                    zero = S.from_int(0).item()
                    try:
                        b0 = P.instantiate(pb, 0., offset=1)
                        if adef is not None:
                            a = PatternedTensor((phys * 0.25).clone() if sem == 'real' else (phys * 0.25).log(), a0.paxes, a0.vaxes, adef if sem == 'real' else math.log(adef))
                            b = PatternedTensor(b0.physical.clone() if sem == 'real' else b0.physical.log(), b0.paxes, b0.vaxes, zero)
                        elif sem == 'real':
                            a = PatternedTensor(phys.clone(), a0.paxes, a0.vaxes, zero)
                            b = PatternedTensor(b0.physical.clone(), b0.paxes, b0.vaxes, zero)
                        elif sem == 'bool':
                            a = PatternedTensor(phys > 0, a0.paxes, a0.vaxes, False)
                            b = PatternedTensor(b0.physical.remainder(2) > 0, b0.paxes, b0.vaxes, False)
                        else:
                            a = PatternedTensor(phys.log(), a0.paxes, a0.vaxes, zero)
                            b = PatternedTensor(b0.physical.log(), b0.paxes, b0.vaxes, zero)
                        Ad, Bd = a.to_dense(), b.to_dense()
                        snap = (a.physical.clone(), b.physical.clone())
                        x = a.solve(b, S).to_dense()
                        want = S.solve(Ad.clone(), Bd.clone())
                    except ptinv.RepInvariantError as e:
                        r.bad('representation-invariant', 'indices.PatternedTensor.solve', sem, '%s / %s: %s' % (P.show(pa), P.show(pb), e), ('P', i), key)
                        continue
                    except Exception as e:
                        r.exc(e, sem, ('P', i), key, msg='solve of %s (%s) with b %s in %s: %s: %s' % (P.show(pa), scale, P.show(pb), sem, type(e).__name__, str(e)[:150]))
                        continue
                    if not (torch.equal(a.physical, snap[0]) and torch.equal(b.physical, snap[1]) and torch.equal(a.to_dense(), Ad)):
                        r.bad('argument-modified', 'indices.PatternedTensor.solve', sem, 'solve changed its arguments: %s / %s' % (P.show(pa), P.show(pb)), ('P', i), key)
                        continue
                    same = torch.equal(x, want) if sem == 'bool' else (x.shape == want.shape and torch.equal(torch.isinf(x), torch.isinf(want)) and torch.allclose(x, want, rtol=1e-9, atol=1e-12, equal_nan=False))
                    if not same:
                        r.bad('not-least-solution', 'indices.PatternedTensor.solve', sem, '%s: A=%s (%s) b=%s: patterned solve %r, dense semiring solve %r' % (sem, P.show(pa), scale, P.show(pb), x.tolist(), want.tolist()), ('P', i), key)
                    else:
                        r.ok(key, outcome=(sem, scale), nontrivial=True)


def part_s32(r, case):
    """Single precision, nearly critical systems (log of the cycle weight -2^-k, k = 6..22, and -1e-3 .. -3e-8) in the Real and Log semirings, 1x1
    and as a 2-cycle, through Semiring.solve, PatternedTensor.solve and multi_solve: the pivot is within 1e-7..1e-2 of
    the semiring one, where star() must not lose its digits.  Oracle: the float32 inputs themselves, read back in
    50-digit arithmetic."""
    import torch, mpmath
    from fggs.indices import PatternedTensor
    from fggs.multi import MultiTensor, multi_solve
    mp = mpmath.mp.clone() if hasattr(mpmath.mp, 'clone') else mpmath.mp
    mp.dps = 50
    import math
    lws = [-(2.0 ** -k) for k in range(6, 23)] + [-1e-3, -1e-4, -1e-5, -1e-6, -3e-7, -1e-7, -3e-8]      # log of the cycle weight
    for k, lw in enumerate(lws):
        a = math.exp(lw)
        for sem in ('real', 'log'):
            S = IR.semiring(sem, 'float32')
            e = (lambda v: torch.tensor(v, dtype=torch.float32)) if sem == 'real' else (lambda v: torch.tensor(v, dtype=torch.float64).log().to(torch.float32))
            if sem == 'real' and float(torch.tensor(a, dtype=torch.float32)) >= 1.0:
                continue      # the weight rounds to one in single precision: the system is critical, not nearly critical
            for shape in ('1x1', '2-cycle'):
                key = (case, k, sem, shape)
                try:
                    if shape == '1x1':
                        A, b = e([[a]]), e([0.75])
                    else:
                        A, b = e([[0., a], [1., 0.]]), e([0.75, 0.5])
                    dec = (lambda t: mp.matrix([[mp.mpf(float(x)) for x in row] for row in t.tolist()])) if sem == 'real' else \
                          (lambda t: mp.matrix([[mp.exp(mp.mpf(float(x))) if x != -inf else mp.mpf(0) for x in row] for row in t.tolist()]))
                    Am = dec(A)
                    bm = dec(b.unsqueeze(1))
                    n = A.shape[0]
                    xm = mp.lu_solve(mp.eye(n) - Am, bm)
                    want = [float(xm[i]) if sem == 'real' else float(mp.log(xm[i])) for i in range(n)]
                    results = {'Semiring.solve': S.solve(A.clone(), b.clone()).tolist(),
                               'PatternedTensor.solve': PatternedTensor(A.clone(), default=S.from_int(0).item()).solve(PatternedTensor(b.clone(), default=S.from_int(0).item()), S).to_dense().tolist()}
                    sh = {'x': torch.Size([n])}
                    Mm, Bm = MultiTensor((sh, sh), S), MultiTensor(sh, S)
                    Mm['x', 'x'] = PatternedTensor(A.clone(), default=S.from_int(0).item())
                    Bm['x'] = PatternedTensor(b.clone(), default=S.from_int(0).item())
                    results['multi_solve'] = multi_solve(Mm, Bm)['x'].to_dense().tolist()
                except Exception as ex:
                    r.exc(ex, sem + '/float32', case, key)
                    continue
                badfn = None
                for fn, got in results.items():
                    for g, w_ in zip(got, want):
                        tol = 1e-4 * abs(w_) if sem == 'real' else 1e-4      # the oracle solves the float32 system itself, so only the solver's own rounding remains
                        if not (abs(g - w_) <= tol):
                            badfn = (fn, got)
                if badfn:
                    r.bad('not-least-solution', 'semirings.' + type(S).__name__ + '.solve', sem + '/float32-near-critical', '%s float32 %s with cycle log-weight %r: %s gives %r, the solution of the float32 system is %r' % (sem, shape, lw, badfn[0], badfn[1], want), case, key)
                else:
                    r.ok(key, outcome=(sem, 'float32-near-critical'), nontrivial=True)


def part_ps(r, case):
    """Operands that share PhysicalAxis objects: a[(x*y), (z*w)] over three axes p, q, r of size 2 (every choice of
    x, y, z, w), b[(u*v)] written with the SAME axis objects (and, as a control, with its own), vector and matrix b."""
    import torch
    from fggs.indices import PatternedTensor, PhysicalAxis, productAxis
    names = 'pqr'
    prods = [(x, y) for x in names for y in names]
    _, rows_lo, rows_hi = case
    for (x, y) in prods[rows_lo:rows_hi]:
        for (z, w_) in prods:
            used = sorted(set((x, y, z, w_)))
            n = len(used)
            base = (torch.arange(1., 2 ** n + 1., dtype=torch.float64) / (2 ** n * 4 + 1)).reshape((2,) * n)     # row sums < 1/2
            for (u, v) in prods:
                for share in (True, False):
                    for matrix in (False, True):
                        for sem in SEMS:
                            key = (case, x + y, z + w_, u + v, share, matrix, sem)
                            S = IR.semiring(sem, 'float64')
                            zero = S.from_int(0).item()
                            try:
                                ax = {c: PhysicalAxis(2) for c in names}
                                bx = ax if share else {c: PhysicalAxis(2) for c in names}
                                bused = sorted(set((u, v)))
                                bphys = torch.arange(1., 2 ** len(bused) + 1., dtype=torch.float64).reshape((2,) * len(bused))
                                aph, bph = base, bphys
                                cax = PhysicalAxis(3)
                                if matrix:
                                    bph = torch.stack([bphys, bphys + 1, bphys * 2], dim=-1)
                                if sem == 'bool':
                                    aph, bph = aph > 0.05, bph.remainder(2) > 0
                                elif sem != 'real':
                                    aph, bph = aph.log(), bph.log()
                                a = PatternedTensor(aph.clone(), tuple(ax[c] for c in used), (productAxis((ax[x], ax[y])), productAxis((ax[z], ax[w_]))), zero)
                                b = PatternedTensor(bph.clone(), tuple(bx[c] for c in bused) + ((cax,) if matrix else ()), (productAxis((bx[u], bx[v])),) + ((cax,) if matrix else ()), zero)
                                Ad, Bd = a.to_dense(), b.to_dense()
                                snap = (a.physical.clone(), b.physical.clone())
                                xs = a.solve(b, S).to_dense()
                                want = S.solve(Ad.clone(), Bd.clone())
                            except ptinv.RepInvariantError as e:
                                r.bad('representation-invariant', 'indices.PatternedTensor.solve', sem, 'shared axes %r: %s' % (key[1:], e), case, key)
                                continue
                            except Exception as e:
                                r.exc(e, sem, case, key, msg='solve with shared axes %r: %s: %s' % (key[1:], type(e).__name__, str(e)[:150]))
                                continue
                            if not (torch.equal(a.physical, snap[0]) and torch.equal(b.physical, snap[1])):
                                r.bad('argument-modified', 'indices.PatternedTensor.solve', sem, 'solve changed its arguments: %r' % (key[1:],), case, key)
                                continue
                            same = torch.equal(xs, want) if sem == 'bool' else (xs.shape == want.shape and torch.equal(torch.isinf(xs), torch.isinf(want)) and torch.allclose(xs, want, rtol=1e-9, atol=1e-12))
                            if not same:
                                r.bad('not-least-solution', 'indices.PatternedTensor.solve', sem, '%s: a[(%s*%s),(%s*%s)] b[(%s*%s)%s] %s axis objects: patterned solve %r, dense semiring solve %r' % (sem, x, y, z, w_, u, v, ',c' if matrix else '', 'sharing' if share else 'with separate', xs.tolist(), want.tolist()), case, key)
                            else:
                                r.ok(key, outcome=(sem, 'shared' if share else 'own'), nontrivial=True)


def part_p3(r, case):
    """Permutation patterns over three shared physical axes: a[(i,j,k), sigma(i,j,k)] = p[i,j,k]; the support of
    a^n b keeps growing for several steps when b is one-hot (the closure loop of PatternedTensor.solve must iterate)."""
    import torch
    from fggs.indices import PatternedTensor, PhysicalAxis, SumAxis, productAxis, unitAxis
    for sigma in itertools.permutations(range(3)):
        for bkind in ['dense', 'diag'] + [('onehot', pos) for pos in ((0, 0, 1), (1, 0, 1), (0, 1, 0))] + ['matrix-onehot']:
            for scale in ('sub', 'super'):
                for sem in SEMS:
                    key = (case, sigma, bkind, scale, sem)
                    S = IR.semiring(sem, 'float64')
                    zero = S.from_int(0).item()
                    try:
                        ax = [PhysicalAxis(2) for _ in range(3)]
                        phys = (torch.arange(1., 9., dtype=torch.float64).reshape(2, 2, 2)) * (1.0 / 80 if scale == 'sub' else 1.0)
                        va = (productAxis(ax), productAxis([ax[i] for i in sigma]))
                        if bkind == 'dense':
                            bt = PatternedTensor(torch.arange(1., 9., dtype=torch.float64))
                        elif bkind == 'diag':
                            k = PhysicalAxis(2)
                            bt = PatternedTensor(torch.tensor([3., 5.], dtype=torch.float64), (k,), (productAxis((k, k, k)),), 0.)
                        elif bkind == 'matrix-onehot':
                            k = PhysicalAxis(2)
                            bt = PatternedTensor(torch.tensor([3., 5.], dtype=torch.float64), (k,), (productAxis((SumAxis(1, unitAxis, 0), SumAxis(0, unitAxis, 1), SumAxis(0, unitAxis, 1))), k), 0.)
                        else:
                            pos = bkind[1]
                            bt = PatternedTensor(torch.tensor(7., dtype=torch.float64), (), (productAxis([SumAxis(x, unitAxis, 1 - x) for x in pos]),), 0.)
                        if sem == 'real':
                            a = PatternedTensor(phys, ax, va, zero)
                            b = PatternedTensor(bt.physical, bt.paxes, bt.vaxes, zero)
                        elif sem == 'bool':
                            a = PatternedTensor(phys > 0, ax, va, False)
                            b = PatternedTensor(bt.physical > 0, bt.paxes, bt.vaxes, False)
                        else:
                            a = PatternedTensor(phys.log(), ax, va, zero)
                            b = PatternedTensor(bt.physical.log(), bt.paxes, bt.vaxes, zero)
                        Ad, Bd = a.to_dense(), b.to_dense()
                        x = a.solve(b, S).to_dense()
                        want = S.solve(Ad.clone(), Bd.clone())
                    except Exception as e:
                        r.exc(e, sem, ('P3',), key, msg='permutation-pattern solve sigma=%r b=%r %s %s: %s: %s' % (sigma, bkind, scale, sem, type(e).__name__, str(e)[:150]))
                        continue
                    same = torch.equal(x, want) if sem == 'bool' else (x.shape == want.shape and torch.equal(torch.isinf(x), torch.isinf(want)) and torch.allclose(x, want, rtol=1e-9, atol=1e-12))
                    if not same:
                        r.bad('not-least-solution', 'indices.PatternedTensor.solve', sem, '%s: a[(i,j,k), perm %r] (%s), b %r: patterned solve %r, dense semiring solve %r' % (sem, sigma, scale, bkind, x.tolist(), want.tolist()), ('P3',), key)
                    else:
                        r.ok(key, outcome=(sem, 'perm'), nontrivial=True)


# ---------------------------------------------------------------------------------------------

MSHAPES = [{'x': (), 'y': (), 'z': ()}, {'x': (2,), 'y': (), 'z': (1,)}, {'x': (2,), 'y': (2, 2)}]


# rectangular block matrices for multi_mv: row and column index sets share keys whose blocks have different sizes
RSHAPES = [({'x': (2,), 'y': (2, 2)}, {'x': (3,), 'y': ()}), ({'x': (), 'y': (2,)}, {'y': (3,), 'z': (1, 2)}), ({'x': (2,), 'y': (1,)}, {'y': (2,), 'x': (1,)})]


def part_mr(ri, amask, r, case):
    """multi_mv(a, b) and multi_mv(a, b, transpose=True) against the dense product, a rectangular: every presence
    pattern of the 4 blocks of a, every presence pattern of the blocks of b, 4 semirings, both key orders."""
    import torch
    from fggs.multi import MultiTensor, multi_mv
    from fggs.indices import PatternedTensor
    rsh, csh = ({k: torch.Size(v) for k, v in d.items()} for d in RSHAPES[ri])
    rkeys, ckeys = list(rsh), list(csh)
    pairs = [(a, b) for a in rkeys for b in ckeys]
    present = [p for i, p in enumerate(pairs) if amask >> i & 1]

    def offsets(sh, keys):
        off, o = {}, 0
        for k in keys:
            off[k] = o
            o += sh[k].numel()
        return off, o
    roff, NR = offsets(rsh, rkeys)
    coff, NC = offsets(csh, ckeys)
    D = [[Fraction(0)] * NC for _ in range(NR)]
    blocks = {}
    for c, (a, b_) in enumerate(pairs, 1):
        if (a, b_) not in present:
            continue
        na, nb = rsh[a].numel(), csh[b_].numel()
        vals = [[Fraction(7 * c + 3 * i + j + 1, 4) if (i + j + c) % 3 else Fraction(0) for j in range(nb)] for i in range(na)]
        blocks[(a, b_)] = vals
        for i in range(na):
            for j in range(nb):
                D[roff[a] + i][coff[b_] + j] = vals[i][j]
    for transpose in (False, True):
        ish, ikeys, ioff, NI = (rsh, rkeys, roff, NR) if transpose else (csh, ckeys, coff, NC)     # the vector's index set
        osh, okeys, ooff, NO = (csh, ckeys, coff, NC) if transpose else (rsh, rkeys, roff, NR)     # the result's index set
        M = [[D[j][i] for j in range(NR)] for i in range(NC)] if transpose else D
        for bmask in range(1 << len(ikeys)):
            bv = [Fraction(0)] * NI
            bblocks = {}
            for i, k in enumerate(ikeys):
                if bmask >> i & 1:
                    vals = [Fraction(j + 2 + i, 2) if (j + i) % 4 != 3 else inf for j in range(ish[k].numel())]
                    bblocks[k] = vals
                    for j, v in enumerate(vals):
                        bv[ioff[k] + j] = v
            for sem in SEMS:
                for rev in (False, True):
                    key = (case, bmask, transpose, sem, rev)
                    S = IR.semiring(sem, 'float64')
                    zero = S.from_int(0).item()
                    dt = torch.bool if sem == 'bool' else torch.float64
                    try:
                        rd = {k: rsh[k] for k in (rkeys[::-1] if rev else rkeys)}
                        cd = {k: csh[k] for k in (ckeys[::-1] if rev else ckeys)}
                        Am = MultiTensor((rd, cd), S)
                        Bm = MultiTensor(rd if transpose else cd, S)
                        for (a, b_), vals in blocks.items():
                            t = torch.tensor([[enc(v, sem) for v in row] for row in vals], dtype=dt).reshape(rsh[a] + csh[b_])
                            Am[a, b_] = PatternedTensor(t, default=zero)
                        for k, vals in bblocks.items():
                            Bm[k] = PatternedTensor(torch.tensor([enc(v, sem) for v in vals], dtype=dt).reshape(ish[k]), default=zero)
                        snapA = {k: v.to_dense().clone() for k, v in Am.items()}
                        snapB = {k: v.to_dense().clone() for k, v in Bm.items()}
                        Y = multi_mv(Am, Bm, transpose=transpose)
                    except ptinv.RepInvariantError as e:
                        r.bad('representation-invariant', 'multi.multi_mv', sem, str(e), ('MR', ri, amask), key)
                        continue
                    except Exception as e:
                        r.exc(e, sem, ('MR', ri, amask), key, msg='multi_mv rows %r columns %r A-blocks %r b-blocks %r transpose=%s %s: %s: %s' % (RSHAPES[ri][0], RSHAPES[ri][1], present, sorted(bblocks), transpose, sem, type(e).__name__, str(e)[:150]))
                        continue
                    if set(Am.keys()) != set(snapA) or set(Bm.keys()) != set(snapB) or any(not torch.equal(Am[k].to_dense(), v) for k, v in snapA.items()) or any(not torch.equal(Bm[k].to_dense(), v) for k, v in snapB.items()):
                        r.bad('argument-modified', 'multi.multi_mv', sem, 'multi_mv changed its arguments', ('MR', ri, amask), key)
                        continue
                    yw = []
                    for i in range(NO):
                        if sem in ('real', 'log'):
                            acc = Fraction(0)
                            for j in range(NI):
                                acc = IR.addx(acc, IR.mulx(M[i][j], bv[j]))
                            yw.append(enc(acc, sem))
                        elif sem == 'bool':
                            yw.append(any(enc(M[i][j], 'bool') and enc(bv[j], 'bool') for j in range(NI)))
                        else:
                            yw.append(max([-inf] + [(-inf if (enc(M[i][j], sem) == -inf or enc(bv[j], sem) == -inf) else enc(M[i][j], sem) + enc(bv[j], sem)) for j in range(NI)]))
                    yg = [zero] * NO
                    bad = None
                    for k in Y.keys():
                        if k not in osh:
                            bad = 'result has a block %r outside the result index set' % (k,)
                            break
                        t = Y[k].to_dense()
                        if tuple(t.shape) != tuple(osh[k]):
                            bad = 'result block %s has shape %r, expected %r' % (k, tuple(t.shape), tuple(osh[k]))
                            break
                        for j, v in enumerate(t.reshape(-1).tolist()):
                            yg[ooff[k] + j] = v
                    if bad is None and not close_list(yg, yw, sem):
                        bad = 'multi_mv gives %r, dense product %r' % (yg, yw)
                    if bad:
                        r.bad('mv-not-dense-product', 'multi.multi_mv', sem + ('/transpose' if transpose else ''), '%s rows %r columns %r A-blocks %r b-blocks %r transpose=%s reversed-keys=%s: %s' % (sem, RSHAPES[ri][0], RSHAPES[ri][1], present, sorted(bblocks), transpose, rev, bad), ('MR', ri, amask), key)
                    else:
                        r.ok(key, outcome=(sem, 'MR', 'T' if transpose else 'N'), nontrivial=bool(present) and bmask > 0)


def part_m(si, amask, r, case):
    import torch
    from fggs.multi import MultiTensor, multi_solve, multi_mv
    from fggs.indices import PatternedTensor, PhysicalAxis
    shapes_ = MSHAPES[si]
    keys = list(shapes_)
    sh = {k: torch.Size(v) for k, v in shapes_.items()}
    off, o = {}, 0
    for k in keys:
        off[k] = o
        o += sh[k].numel()
    N = o
    pairs = [(a, b) for a in keys for b in keys]
    present = [p for i, p in enumerate(pairs) if amask >> i & 1]
    devs = ['generic']
    diag_present = [p for p in present if p[0] == p[1]]
    if diag_present:
        devs += ['crit', 'super', 'inf']
    for dev in devs:
        # dense real-encoded system with exact rationals
        D = [[Fraction(0)] * N for _ in range(N)]
        blocks = {}
        c = 0
        for (a, b_) in pairs:
            if (a, b_) not in present:
                continue
            c += 1
            na, nb = sh[a].numel(), sh[b_].numel()
            vals = [[Fraction(13 * c * (i * nb + j + 1) + 10, 1000 * N) for j in range(nb)] for i in range(na)]
            if (a, b_) == (diag_present[0] if diag_present else None) and dev != 'generic':
                for i in range(na):
                    for j in range(nb):
                        vals[i][j] = {'crit': Fraction(1, nb), 'super': Fraction(2, nb), 'inf': vals[i][j]}[dev]
                if dev == 'inf':
                    vals[0][0] = inf
            blocks[(a, b_)] = vals
            for i in range(na):
                for j in range(nb):
                    D[off[a] + i][off[b_] + j] = vals[i][j]
        full = (1 << len(keys)) - 1
        if si == 0:
            bmasks = range(full + 1) if dev == 'generic' else (full,)
        elif si == 1:
            bmasks = (1, 2, 4, full) if dev == 'generic' else (full,)
        else:
            bmasks = range(full + 1)
        for bmask in bmasks:
            bv = [Fraction(0)] * N
            bblocks = {}
            for i, k in enumerate(keys):
                if bmask >> i & 1:
                    vals = [Fraction(j + 1 + i) for j in range(sh[k].numel())]
                    bblocks[k] = vals
                    for j, v in enumerate(vals):
                        bv[off[k] + j] = v
            for transpose in (False, True):
                M = [[D[j][i] for j in range(N)] for i in range(N)] if transpose else D
                if si == 1:
                    sems = ('real', 'viterbi') if bmask == full else ('real',)
                elif dev != 'generic':
                    sems = ('real', 'log', 'viterbi')
                else:
                    sems = SEMS
                for sem in sems:
                    want = oracle_dense(M, bv, sem) if N else []
                    # dense matrix-vector product for multi_mv
                    for order in ((keys, keys[::-1]) if sem == 'real' and dev == 'generic' and bmask == full else (keys,)):
                        key = (case, dev, bmask, transpose, sem, tuple(order))
                        S = IR.semiring(sem, 'float64')
                        zero = S.from_int(0).item()
                        dt = torch.bool if sem == 'bool' else torch.float64
                        try:
                            shd = {k: sh[k] for k in order}
                            Am = MultiTensor((shd, shd), S)
                            Bm = MultiTensor(shd, S)
                            for (a, b_), vals in blocks.items():
                                t = torch.tensor([[enc(v, sem) for v in row] for row in vals], dtype=dt).reshape(sh[a] + sh[b_])
                                Am[a, b_] = PatternedTensor(t, default=zero)
                            for k, vals in bblocks.items():
                                t = torch.tensor([enc(v, sem) for v in vals], dtype=dt).reshape(sh[k])
                                Bm[k] = PatternedTensor(t, default=zero)
                            snapA = {k: v.to_dense().clone() for k, v in Am.items()}
                            snapB = {k: v.to_dense().clone() for k, v in Bm.items()}
                            X = multi_solve(Am, Bm, transpose=transpose)
                            Y = multi_mv(Am, Bm, transpose=transpose)
                        except ptinv.RepInvariantError as e:
                            r.bad('representation-invariant', 'multi.multi_solve', sem, str(e), ('M', si, amask), key)
                            continue
                        except Exception as e:
                            r.exc(e, sem, ('M', si, amask), key, msg='multi_solve shapes %r A-blocks %r b-blocks %r transpose=%s %s %s: %s: %s' % (shapes_, present, sorted(bblocks), transpose, sem, dev, type(e).__name__, str(e)[:150]))
                            continue
                        if set(Am.keys()) != set(snapA) or set(Bm.keys()) != set(snapB) or any(not torch.equal(Am[k].to_dense(), v) for k, v in snapA.items()) or any(not torch.equal(Bm[k].to_dense(), v) for k, v in snapB.items()):
                            r.bad('argument-modified', 'multi.multi_solve', sem, 'multi_solve/multi_mv changed their arguments', ('M', si, amask), key)
                            continue
                        got = [zero] * N
                        bad = None
                        for k in keys:
                            if k in X:
                                t = X[k].to_dense()
                                if tuple(t.shape) != tuple(sh[k]):
                                    bad = 'block %s has shape %r' % (k, tuple(t.shape))
                                    break
                                for j, v in enumerate(t.reshape(-1).tolist()):
                                    got[off[k] + j] = v
                        if bad is None and not close_list(got, want, sem):
                            bad = 'multi_solve gives %r, least solution %r' % (got, want)
                        if bad is None:
                            # multi_mv = dense product
                            yw = []
                            for i in range(N):
                                if sem in ('real', 'log'):
                                    acc = Fraction(0)
                                    for j in range(N):
                                        acc = IR.addx(acc, IR.mulx(M[i][j], bv[j]))
                                    yw.append(enc(acc, sem))
                                elif sem == 'bool':
                                    yw.append(any(enc(M[i][j], 'bool') and enc(bv[j], 'bool') for j in range(N)))
                                else:
                                    yw.append(max([-inf] + [(-inf if (enc(M[i][j], sem) == -inf or enc(bv[j], sem) == -inf) else enc(M[i][j], sem) + enc(bv[j], sem)) for j in range(N)]))
                            yg = [zero] * N
                            for k in keys:
                                if k in Y:
                                    for j, v in enumerate(Y[k].to_dense().reshape(-1).tolist()):
                                        yg[off[k] + j] = v
                            if not close_list(yg, yw, sem):
                                bad = 'multi_mv gives %r, dense product %r' % (yg, yw)
                        if bad:
                            r.bad('not-least-solution', 'multi.multi_solve', sem if dev == 'generic' else sem + '/' + dev + '-diagonal-block', '%s shapes %r A-blocks %r (%s) b-blocks %r transpose=%s order=%r: %s' % (sem, shapes_, present, dev, sorted(bblocks), transpose, order, bad), ('M', si, amask), key)
                        else:
                            r.ok(key, outcome=(sem, dev, 'T' if transpose else 'N'), nontrivial=bool(present) and bmask > 0)
