"""C20 — domains and factors index consistently and reject ill-shaped bindings."""
import itertools
from mc.core import Res, exc_site, exc_kind

PID = 'C20'
LEVEL = 'exploration'
RULE = ('(1) every FiniteDomain over <= 3 distinct values of a 6-value alphabet and RangeDomain sizes 0..4: '
        'numberize/denumberize/contains/size/equality vs list semantics; (2) FiniteFactor for every domain-size '
        'tuple in {0..3}^k (k<=3) against every weight shape in {0..3}^j (j<=3), as nested list / Tensor / dense '
        'PatternedTensor / strided-view and diagonal PatternedTensor: accepted iff shapes equal, apply() at every '
        'value tuple equals the dense entry, equality by domains and dense weights; (3) every sequence of <= D '
        'binding calls (add_domain / add_factor / new_finite_factor over 7 labels, 4 domains) on FGG and '
        'FactorGraph against a dictionary model: success iff terminal, arity and every domain match, all node '
        'labels mapped, label unbound; shape() reports the bound sizes. Non-trivial = accepted factor / sequence '
        'with >= 1 successful binding.')
ASSUMPTIONS = ['rejection = ValueError, KeyError or TypeError', 'CPU only']
REJECT = (ValueError, KeyError, TypeError)
VALS = ['a', 'b', 0, 1, (0, 1), None]
CHUNK = 4


def bounds(tier):
    return {'domain_values': 3, 'range_sizes': 5, 'factor_rank': 3, 'dim_sizes': [0, 1, 2, 3],
            'binding_depth': 3}


def gen_cases(tier, seed):
    for k in range(0, 4):
        yield ('finite', k)
    yield ('range',)
    for k in range(0, 4):
        for sizes in itertools.product(range(0, 4), repeat=k):
            yield ('factor', sizes)
    yield ('factor-eq',)
    D = bounds(tier)['binding_depth']
    nops = len(binding_ops())
    for cls in ('FGG', 'FactorGraph'):
        for first in range(nops):
            yield ('bind', cls, first, D)


def describe(case):
    return {'part': case[0], 'params': list(case[1:])}


# ---------------------------------------------------------------------------------------------

def run_case(case):
    r = Res()
    if case[0] == 'finite':
        part_finite(case[1], r, case)
    elif case[0] == 'range':
        part_range(r, case)
    elif case[0] == 'factor':
        part_factor(case[1], r, case)
    elif case[0] == 'factor-eq':
        part_factor_eq(r, case)
    else:
        part_bind(case[1], case[2], case[3], r, case)
    return r


def part_finite(k, r, case):
    from fggs.domains import FiniteDomain, RangeDomain
    for vs in itertools.permutations(VALS, k):
        key = ('finite', vs)
        try:
            d = FiniteDomain(list(vs))
            msgs = []
            if d.size() != k:
                msgs.append('size %r != %d' % (d.size(), k))
            for i, v in enumerate(vs):
                if d.numberize(v) != i:
                    msgs.append('numberize(%r)=%r != %d' % (v, d.numberize(v), i))
                if d.denumberize(i) != v or type(d.denumberize(i)) != type(v):
                    msgs.append('denumberize(%d)=%r != %r' % (i, d.denumberize(i), v))
                if not d.contains(v):
                    msgs.append('contains(%r) False' % (v,))
            for v in VALS + ['zz', 2]:
                if v not in vs:
                    if d.contains(v):
                        msgs.append('contains(%r) True for a non-member' % (v,))
                    try:
                        d.numberize(v)
                        msgs.append('numberize(%r) of a non-member succeeded' % (v,))
                    except REJECT:
                        pass
            if not (d == FiniteDomain(list(vs))) or d != FiniteDomain(list(vs)):
                msgs.append('not equal to a domain with the same values')
            if k > 1 and d == FiniteDomain(list(reversed(vs))):
                msgs.append('equal to a domain with the values in another order')
            if d == FiniteDomain(list(vs) + ['extra']) or (k > 0 and d == FiniteDomain(list(vs[:-1]))):
                msgs.append('equal to a domain with other values')
            if d == RangeDomain(k):
                msgs.append('FiniteDomain equal to RangeDomain')
            j = d.to_json()
            if j != {'class': 'finite', 'values': list(vs)}:
                msgs.append('to_json %r' % (j,))
            # history: the caller keeps using (extending, reordering) the list it built the domain from
            src = list(vs)
            d2 = FiniteDomain(src)
            src.append('later')
            src.reverse()
            if d2.size() != k or [d2.denumberize(i) for i in range(k)] != list(vs) or [d2.numberize(v) for v in vs] != list(range(k)) or d2.contains('later') or d2 != d or d2.to_json() != j:
                msgs.append('domain changed when the list it was built from was modified afterwards: size %r, values %r' % (d2.size(), d2.to_json()))
            out = d.to_json()['values']
            if isinstance(out, list):
                out.append('injected')
                if d.size() != k or d.contains('injected'):
                    msgs.append('modifying the list returned by to_json() changed the domain')
        except Exception as e:
            r.exc(e, 'finite-domain', case, key)
            continue
        if msgs:
            r.bad('domain-semantics', 'domains.FiniteDomain', 'finite-domain', '%r: %s' % (vs, '; '.join(msgs)), case, key)
        else:
            r.ok(key, outcome=('finite', k), nontrivial=k > 0)


def part_range(r, case):
    from fggs.domains import FiniteDomain, RangeDomain
    for s in range(0, 5):
        key = ('range', s)
        msgs = []
        try:
            d = RangeDomain(s)
            if d.size() != s:
                msgs.append('size')
            for i in range(-2, s + 3):
                if bool(d.contains(i)) != (0 <= i < s):
                    msgs.append('contains(%d)=%r' % (i, d.contains(i)))
            for i in range(s):
                if d.numberize(i) != i or d.denumberize(i) != i:
                    msgs.append('numberize/denumberize(%d)' % i)
            if not (d == RangeDomain(s)) or d != RangeDomain(s):
                msgs.append('not equal to same-size range')
            for s2 in range(0, 6):
                if s2 != s and d == RangeDomain(s2):
                    msgs.append('equal to RangeDomain(%d)' % s2)
            if d == FiniteDomain(list(range(s))):
                msgs.append('equal to a FiniteDomain')
            if d.to_json() != {'class': 'range', 'size': s}:
                msgs.append('to_json')
        except Exception as e:
            r.exc(e, 'range-domain', case, key)
            continue
        if msgs:
            r.bad('domain-semantics', 'domains.RangeDomain', 'range-domain', 'size %d: %s' % (s, '; '.join(msgs)), case, key)
        else:
            r.ok(key, outcome=('range', s), nontrivial=s > 0)


def weight_forms(shp):
    """(name, constructor(t) -> weights object, dense tensor t)."""
    import torch
    from fggs.indices import PatternedTensor, PhysicalAxis
    numel = 1
    for s in shp:
        numel *= s
    t = torch.arange(1., 1. + numel).reshape(shp) if numel else torch.zeros(shp)
    forms = [('tensor', t, t)]
    if not (numel == 0 and len(shp) > 1):      # nested empty lists cannot carry a shape
        forms.append(('list', t.tolist(), t))
    forms.append(('patterned', PatternedTensor(t), t))
    if numel:
        # a Tensor whose dtype is not the default one, with values float32 cannot represent
        t64 = (torch.arange(1., 1. + numel, dtype=torch.float64) / 10. + 2. ** -40).reshape(shp)
        forms.append(('tensor-float64', t64, t64))
        forms.append(('patterned-float64', PatternedTensor(t64.clone()), t64))
    if len(shp) >= 1 and numel:
        # a non-contiguous (transposed-storage) physical tensor
        tt = t.permute(*reversed(range(len(shp)))).contiguous().permute(*reversed(range(len(shp))))
        forms.append(('patterned-strided', PatternedTensor(tt), t))
    if len(shp) == 2 and shp[0] == shp[1] and shp[0] > 1:
        k = PhysicalAxis(shp[0])
        phys = torch.arange(1., 1. + shp[0])
        forms.append(('patterned-diagonal', PatternedTensor(phys, (k,), (k, k), 0.), torch.diag(phys)))
    if len(shp) == 2 and shp[0] > 1 and shp[1] > 1:
        k = PhysicalAxis(shp[0])
        phys = torch.arange(1., 1. + shp[0])
        forms.append(('tensor-expanded', phys.unsqueeze(1).expand(shp), phys.unsqueeze(1).expand(shp)))
    return forms


def part_factor(sizes, r, case):
    import torch
    from fggs.domains import FiniteDomain, RangeDomain
    from fggs.factors import FiniteFactor
    doms_r = [RangeDomain(s) for s in sizes]
    # finite domains with non-integer values so that numberize matters
    doms_f = [FiniteDomain(['v%d_%d' % (i, j) for j in range(s)][::-1]) for i, s in enumerate(sizes)]
    for j in range(0, 4):
        for shp in itertools.product(range(0, 4), repeat=j):
            for form, w, t in weight_forms(shp):
                for dk, doms in (('range', doms_r), ('finite', doms_f)):
                    key = ('factor', sizes, shp, form, dk)
                    should = tuple(shp) == tuple(sizes)
                    try:
                        f = FiniteFactor(doms, w)
                        ok = True
                    except ValueError:
                        ok = False
                    except Exception as e:
                        r.exc(e, 'factor-construction', case, key)
                        continue
                    if ok != should:
                        r.bad('accepts-wrong-shape' if ok else 'rejects-right-shape', 'factors.FiniteFactor', 'factor-construction',
                              'domain sizes %r, weights shape %r as %s: accepted=%r' % (sizes, shp, form, ok), case, key)
                        continue
                    if not ok:
                        r.ok(key, outcome='rejected', nontrivial=False)
                        continue
                    msgs = []
                    try:
                        if tuple(f.weights.shape) != tuple(sizes) or f.arity != len(sizes):
                            msgs.append('weights.shape/arity')
                        if not torch.equal(f.weights.to_dense().to(t.dtype), t):
                            msgs.append('dense weights differ')
                        for idx in itertools.product(*[range(s) for s in sizes]):
                            vals = [d.denumberize(i) for d, i in zip(doms, idx)]
                            got = f.apply(vals)
                            if float(got) != float(t[idx]):
                                msgs.append('apply%r=%r != %r' % (tuple(vals), float(got), float(t[idx])))
                                break
                        # re-assigning the weights (after apply has been used) takes effect; a wrong shape is rejected
                        # and leaves the old weights in place
                        if form == 'tensor' and t.numel():
                            t2 = t + 100.
                            f.weights = t2
                            for idx in itertools.product(*[range(s) for s in sizes]):
                                vals = [d.denumberize(i) for d, i in zip(doms, idx)]
                                if float(f.apply(vals)) != float(t2[idx]):
                                    msgs.append('after f.weights = new: apply%r=%r != %r' % (tuple(vals), float(f.apply(vals)), float(t2[idx])))
                                    break
                            try:
                                f.weights = torch.zeros(tuple(s + 1 for s in sizes) if sizes else (2,))
                                msgs.append('weights setter accepted a wrong shape')
                            except ValueError:
                                if not torch.equal(f.weights.to_dense(), t2):
                                    msgs.append('rejected weights assignment changed the weights')
                    except Exception as e:
                        r.exc(e, 'factor-apply', case, key)
                        continue
                    if msgs:
                        r.bad('factor-semantics', 'factors.FiniteFactor', 'factor-apply', 'sizes %r form %s/%s: %s' % (sizes, form, dk, '; '.join(msgs)), case, key)
                    else:
                        r.ok(key, outcome='accepted', nontrivial=True)


def part_factor_eq(r, case):
    """Equality over all pairs of a small factor catalogue: by domains and dense weights."""
    import torch
    from fggs.domains import FiniteDomain, RangeDomain
    from fggs.factors import FiniteFactor
    from fggs.indices import PatternedTensor, PhysicalAxis
    k = PhysicalAxis(2)
    cat = []
    for dname, mk in (('r2', lambda: RangeDomain(2)), ('f2', lambda: FiniteDomain(['x', 'y'])), ('f2b', lambda: FiniteDomain(['y', 'x']))):
        for wname, w in (('12', [1., 2.]), ('12t', torch.tensor([1., 2.])), ('13', [1., 3.])):
            cat.append(((dname,), (1., float(w[1])), lambda mk=mk, w=w: FiniteFactor([mk()], w)))
        for wname, mkw, dense in (('diag', lambda: PatternedTensor(torch.tensor([1., 2.]), (k,), (k, k), 0.), ((1., 0.), (0., 2.))),
                                  ('dense-diag', lambda: [[1., 0.], [0., 2.]], ((1., 0.), (0., 2.))),
                                  ('diag-default7', lambda: PatternedTensor(torch.tensor([1., 2.]), (k,), (k, k), 7.), ((1., 7.), (7., 2.))),
                                  ('full', lambda: [[1., 7.], [7., 2.]], ((1., 7.), (7., 2.))),
                                  ('asym', lambda: [[1., 7.], [3., 2.]], ((1., 7.), (3., 2.))),
                                  ('asym-transposed-view', lambda: PatternedTensor(torch.tensor([[1., 3.], [7., 2.]])).T, ((1., 7.), (3., 2.))),
                                  ('asym-T', lambda: [[1., 3.], [7., 2.]], ((1., 3.), (7., 2.))),
                                  ('asym-T-as-view', lambda: PatternedTensor(torch.tensor([[1., 7.], [3., 2.]])).T, ((1., 3.), (7., 2.)))):
            cat.append(((dname, dname), dense, lambda mk=mk, mkw=mkw: FiniteFactor([mk(), mk()], mkw())))
    for (d1, w1, m1), (d2, w2, m2) in itertools.product(cat, repeat=2):
        key = ('feq', d1, w1, d2, w2, id(m1), id(m2))
        try:
            a, b = m1(), m2()
            got, got_ne = (a == b), (a != b)
        except Exception as e:
            r.exc(e, 'factor-eq', case, ('feq', d1, w1, d2, w2))
            continue
        want = (d1 == d2 and w1 == w2)
        if bool(got) != want or bool(got_ne) == want:
            r.bad('factor-equality', 'factors.FiniteFactor.__eq__', 'factor-eq', 'domains %r weights %r vs %r %r: ==%r !=%r want %r' % (d1, w1, d2, w2, got, got_ne, want), case, ('feq', d1, w1, d2, w2))
        else:
            r.ok(('feq', d1, w1, d2, w2), outcome=('eq', want), nontrivial=want)


# ---------------------------------------------------------------------------------------------
# binding sequences against a dictionary model

LABELS = {'e': ('A',), 'f': ('A', 'B'), 'g': ('B', 'A'), 'h': (), 'a2': ('A', 'A'), 'X': ('A',), 'c': ('C',)}
NONTERMINAL = {'X'}
DOMS = {'dA2': ('finite', (0, 1)), 'dA2copy': ('finite', (0, 1)), 'dB3': ('range', 3), 'dB2': ('finite', ('x', 'y')), 'dE0': ('finite', ()), 'dR0': ('range', 0)}
DOMKEY = dict(DOMS)


def mkdom(name):
    from fggs.domains import FiniteDomain, RangeDomain
    kind, v = DOMS[name]
    return FiniteDomain(list(v)) if kind == 'finite' else RangeDomain(v)


def domsize(name):
    kind, v = DOMS[name]
    return len(v) if kind == 'finite' else v


_ops = None


def binding_ops():
    global _ops
    if _ops is None:
        ops = []
        for nl, d in (('A', 'dA2'), ('A', 'dB3'), ('B', 'dB3'), ('B', 'dB2'), ('B', 'dA2'), ('A', 'dE0'), ('C', 'dR0'), ('C', 'dA2')):
            ops.append(('add_domain', nl, d))
        for lab, ty in LABELS.items():
            ar = len(ty)
            tuples = list(itertools.product(('dA2copy', 'dB3', 'dB2'), repeat=ar))
            for ds in tuples:
                ops.append(('add_factor', lab, ds))
            ops.append(('add_factor', lab, ('dA2copy',) * (ar + 1)))          # arity too large
            if ar:
                ops.append(('add_factor', lab, ('dA2copy',) * (ar - 1)))      # arity too small
            ops.append(('new_finite_factor', lab, 'right'))
            ops.append(('new_finite_factor', lab, 'wrong'))
        ops.append(('new_finite_factor', 'nosuch', 'right'))
        _ops = ops
    return _ops


def fresh_object(cls):
    import fggs
    A, B, C = fggs.NodeLabel('A'), fggs.NodeLabel('B'), fggs.NodeLabel('C')
    nl = {'A': A, 'B': B, 'C': C}
    els = {lab: fggs.EdgeLabel(lab, [nl[x] for x in ty], is_terminal=lab not in NONTERMINAL, is_nonterminal=lab in NONTERMINAL)
           for lab, ty in LABELS.items()}
    if cls == 'FGG':
        o = fggs.FGG('S')
        for el in els.values():
            o.add_edge_label(el)
    else:
        o = fggs.FactorGraph()
        for el in els.values():
            o.add_edge_label(el)
    return o, nl, els


def model_apply(op, mdoms, mfacs):
    """Returns True (accepted; model updated) or False."""
    if op[0] == 'add_domain':
        _, nl, d = op
        if nl in mdoms:
            return False
        mdoms[nl] = d
        return True
    lab = op[1]
    if lab not in LABELS or lab in NONTERMINAL:
        return False
    ty = LABELS[lab]
    if op[0] == 'add_factor':
        ds = op[2]
        if lab in mfacs or len(ds) != len(ty):
            return False
        for nl, d in zip(ty, ds):
            if nl not in mdoms or DOMKEY[mdoms[nl]] != DOMKEY[d]:
                return False
        mfacs[lab] = tuple(domsize(d) for d in ds)
        return True
    # new_finite_factor
    if any(nl not in mdoms for nl in ty) or lab in mfacs:
        return False
    if op[2] == 'wrong':
        return False
    mfacs[lab] = tuple(domsize(mdoms[nl]) for nl in ty)
    return True


def lib_apply(op, o, nl, els):
    import torch
    from fggs.factors import FiniteFactor
    if op[0] == 'add_domain':
        o.add_domain(nl[op[1]], mkdom(op[2]))
    elif op[0] == 'add_factor':
        doms = [mkdom(d) for d in op[2]]
        o.add_factor(els[op[1]], FiniteFactor(doms, torch.ones([d.size() for d in doms])))
    else:
        lab = op[1]
        ty = LABELS.get(lab, ())
        shape = [o.domains[x].size() if x in o.domains else 2 for x in ty]
        if op[2] == 'wrong':
            shape = shape + [2] if len(shape) < 2 else [s + 1 for s in shape]
        o.new_finite_factor(lab, torch.ones(shape))


def part_bind(cls, first, depth, r, case):
    ops = binding_ops()
    for rest in itertools.product(range(len(ops)), repeat=depth - 1):
        seq = (first,) + rest
        key = ('bind', cls, seq)
        o, nl, els = fresh_object(cls)
        mdoms, mfacs = {}, {}
        nacc = 0
        bad = False
        for step, oi in enumerate(seq):
            op = ops[oi]
            want = model_apply(op, mdoms, mfacs)
            try:
                lib_apply(op, o, nl, els)
                got = True
            except REJECT:
                got = False
            except Exception as e:
                r.exc(e, 'binding', ('bindseq', cls, seq[:step + 1]), key)
                bad = True
                break
            nacc += got
            if got != want:
                r.bad('binding-accepted' if got else 'binding-rejected', 'fggs.InterpretationMixin.' + op[0], 'binding',
                      '%s: after %r the call %r was %s (model: %s)' % (cls, [ops[i] for i in seq[:step]], op, 'accepted' if got else 'rejected', 'accept' if want else 'reject'),
                      ('bindseq', cls, seq[:step + 1]), key)
                bad = True
                break
            msg = compare_state(o, els, nl, mdoms, mfacs)
            if msg:
                r.bad('binding-state', 'fggs.InterpretationMixin.' + op[0], 'binding', '%s: after %r: %s' % (cls, [ops[i] for i in seq[:step + 1]], msg),
                      ('bindseq', cls, seq[:step + 1]), key)
                bad = True
                break
        if not bad:
            r.ok(key, outcome=('accepted', nacc), nontrivial=nacc > 0)


def compare_state(o, els, nl, mdoms, mfacs):
    import fggs
    if set(o.domains) != set(mdoms):
        return 'domains bound %r, model %r' % (sorted(o.domains), sorted(mdoms))
    for k, d in mdoms.items():
        if o.domains[k] != mkdom(d):
            return 'domain of %s is not %s' % (k, d)
    if set(o.factors) != set(mfacs):
        return 'factors bound %r, model %r' % (sorted(o.factors), sorted(mfacs))
    for lab, shp in mfacs.items():
        f = o.factors[lab]
        if tuple(f.weights.shape) != shp:
            return 'factor %s has shape %r, model %r' % (lab, tuple(f.weights.shape), shp)
        if o.shape(els[lab]) != shp:
            return 'shape(label %s)=%r but bound weights have %r' % (lab, o.shape(els[lab]), shp)
        nodes = [fggs.Node(x) for x in els[lab].type]
        if o.shape(fggs.Edge(els[lab], nodes)) != shp or (nodes and o.shape(nodes) != shp) or o.shape(list(els[lab].type)) != shp:
            return 'shape(edge / nodes / node labels) of %s disagrees with %r' % (lab, shp)
    return None


def run_bindseq(case):
    _, cls, seq = case
    r = Res()
    # replay helper: a recorded prefix is re-run through part_bind's loop body
    ops = binding_ops()
    o, nl, els = fresh_object(cls)
    mdoms, mfacs = {}, {}
    for step, oi in enumerate(seq):
        op = ops[oi]
        want = model_apply(op, mdoms, mfacs)
        try:
            lib_apply(op, o, nl, els)
            got = True
        except REJECT:
            got = False
        if got != want:
            r.bad('binding-accepted' if got else 'binding-rejected', 'fggs.InterpretationMixin.' + op[0], 'binding', '%s %r step %d' % (cls, [ops[i] for i in seq], step), case)
            return r
        msg = compare_state(o, els, nl, mdoms, mfacs)
        if msg:
            r.bad('binding-state', 'fggs.InterpretationMixin.' + op[0], 'binding', msg, case)
            return r
    r.ok(('bind', cls, seq), outcome='replayed')
    return r


_run_case = run_case


def run_case(case):  # noqa: F811  (dispatch incl. replay form)
    if case[0] == 'bindseq':
        return run_bindseq(case)
    return _run_case(case)
