"""C16 — graphs and grammars stay well formed under any sequence of API calls.

Explicit-state breadth-first search over call histories, separately for Graph, FactorGraph, HRG and
FGG.  A state is a call history (replayed on a fresh object in whichever worker expands it); states are
deduplicated on a canonical snapshot taken through the public accessors.  Every transition executes the
real method and is judged against (a) a plain-Python reference model (does the call succeed? what are
the nodes / edges / ext / rules / start / domains / factors afterwards?), (b) the invariants of the
property, (c) atomicity of failing calls, (d) copy equality and copy independence.  After the search
`==` is evaluated on all pairs of visited states.
"""
import itertools, collections
from mc.core import Res, Accum, run_pool, exc_site, exc_kind, h8

PID = 'C16'
LEVEL = 'model_checking'
RULE = ('explicit-state BFS over API call histories for Graph / FactorGraph / HRG / FGG (alphabets of 40-50 '
        'concrete calls over a universe with id clashes, label-name clashes, ill-typed edges, implicit ids); '
        'every transition runs the real method and is compared with a dictionary reference model, the '
        'well-formedness invariants, failure atomicity, copy equality and copy independence (every call and an '
        'in-place weight edit applied to a copy / to the original); == evaluated on all pairs of visited states. '
        'states = distinct canonical snapshots; transitions = executed calls; non-trivial = state with >= 1 '
        'node/edge/rule.')
ASSUMPTIONS = ['a failing call may raise ValueError, KeyError, TypeError or Exception; other types are reported',
               'label tables are compared for copy/atomicity only; the model leaves acceptance open ("either") where '
               'it depends on whether a no-longer-used label is still remembered']
OKEXC = ('ValueError', 'KeyError', 'TypeError', 'Exception')
CHUNK = 8
KINDS = ('Graph', 'FactorGraph', 'HRG', 'FGG')


def bounds(tier):
    return {'depth': {'Graph': 4, 'FactorGraph': 3, 'HRG': 4, 'FGG': 4},
            'all_pairs_eq_states_cap': 4000 if tier == 'quick' else 12000}


# ---------------------------------------------------------------------------------------------
# universe

_U = None


class U:
    pass


def universe():
    global _U
    if _U is not None:
        return _U
    import fggs
    from fggs import Node, Edge, NodeLabel, EdgeLabel
    u = U()
    u.A, u.B = NodeLabel('A'), NodeLabel('B')
    A, B = u.A, u.B
    u.N1, u.N1b, u.N2, u.N3 = Node(A, 'n1'), Node(B, 'n1'), Node(B, 'n2'), Node(A)
    u.eA = EdgeLabel('e', [A], is_terminal=True)
    u.eB = EdgeLabel('e', [B], is_terminal=True)
    u.f = EdgeLabel('f', [A, B], is_terminal=True)
    u.X = EdgeLabel('X', [A], is_nonterminal=True)
    u.XB = EdgeLabel('X', [B], is_nonterminal=True)
    u.g2 = EdgeLabel('g', [A, A], is_terminal=True)
    u.S = EdgeLabel('S', [], is_nonterminal=True)
    u.Y = EdgeLabel('Y', [], is_nonterminal=True)
    u.uAB = EdgeLabel('u', [A, B], is_terminal=True)
    u.NF = Node(B, 'fresh')
    u.E1 = Edge(u.eA, [u.N1], 'e1')
    u.E1b = Edge(u.eB, [u.N2], 'e1')
    u.E2 = Edge(u.f, [u.N1, u.N2], 'e2')
    u.E3 = Edge(u.eB, [u.N2], 'e3')
    u.E4 = Edge(u.XB, [u.N1b], 'e4')
    u.E5 = Edge(u.g2, [u.N1, u.N1], 'e5')
    u.E6 = Edge(u.X, [u.N3])
    u.E7 = Edge(u.eB, [u.NF], 'e7')
    u.names = {u.N3.id: '#N3', u.E6.id: '#E6'}

    def G(nodes, edges, ext):
        g = fggs.Graph()
        for n in nodes:
            g.add_node(n)
        for e in edges:
            g.add_edge(e)
        g.ext = ext
        return g
    u.G = G
    # rules (right-hand sides are never mutated by the alphabet, so they can be shared)
    u.R1 = fggs.HRGRule(u.S, G([u.N1], [Edge(u.X, [u.N1], 'r1')], []))
    u.R2 = fggs.HRGRule(u.X, G([u.N1], [Edge(u.eA, [u.N1], 'r2')], [u.N1]))
    u.R3 = fggs.HRGRule(u.XB, G([u.N2], [Edge(u.eB, [u.N2], 'r3')], [u.N2]))
    u.R4 = fggs.HRGRule(u.Y, G([u.N1, u.N2], [Edge(u.eA, [u.N1], 'r4'), Edge(u.uAB, [u.N1, u.N2], 'r5')], []))
    u.R5 = fggs.HRGRule(u.X, G([u.N1, u.N2], [Edge(u.XB, [u.N2], 'r6')], [u.N1]))     # lhs X:(A) vs rhs edge X:(B)
    u.g_ok = lambda: G([u.N1], [Edge(u.eA, [u.N1], 'r7')], [u.N1])
    u.g_bad = lambda: G([u.N2], [Edge(u.eB, [u.N2], 'r8')], [u.N2])
    _U = u
    return u


# ---------------------------------------------------------------------------------------------
# signatures (canonical, process-independent)

class Ctx:
    """Per-replay naming of objects with implicit (address-derived) ids."""
    def __init__(self):
        self.names = dict(universe().names)
        self.fresh = 0

    def idkey(self, i):
        if isinstance(i, str):
            return i
        if i not in self.names:
            self.names[i] = '#f%d' % self.fresh
            self.fresh += 1
        return self.names[i]


def lsig(l):
    return (l.name, bool(l.is_terminal), tuple(x.name for x in l.type))


def nsig(ctx, n):
    return (ctx.idkey(n.id), n.label.name)


def esig(ctx, e):
    return (ctx.idkey(e.id), lsig(e.label), tuple(nsig(ctx, v) for v in e.nodes))


def graph_obs(ctx, g):
    return (tuple(nsig(ctx, n) for n in g.nodes()),
            tuple(esig(ctx, e) for e in g.edges()),
            tuple(nsig(ctx, v) for v in g.ext),
            tuple(l.name for l in g.node_labels()),
            tuple(lsig(l) for l in g.edge_labels()),
            tuple(lsig(l) for l in g.nonterminals()), tuple(lsig(l) for l in g.terminals()),
            (g.arity, tuple(l.name for l in g.type)))


def graph_struct(ctx, g):
    return (frozenset(nsig(ctx, n) for n in g.nodes()), frozenset(esig(ctx, e) for e in g.edges()),
            tuple(nsig(ctx, v) for v in g.ext))


def interp_obs(o):
    doms = tuple((k, repr(d.to_json())) for k, d in o.domains.items())
    facs = tuple((k, tuple(repr(d.to_json()) for d in f.domains), repr(f.weights.to_dense().tolist()))
                 for k, f in o.factors.items())
    return (doms, facs)


def hrg_obs(ctx, h):
    return (lsig(h.start) if h.start is not None else None,
            tuple((lsig(r.lhs), graph_obs(ctx, r.rhs)) for r in h.all_rules()),
            tuple((lsig(nt), tuple(graph_obs(ctx, r.rhs) for r in h.rules(nt))) for nt in h.nonterminals()),
            tuple(l.name for l in h.node_labels()),
            tuple(lsig(l) for l in h.edge_labels()),
            tuple(lsig(l) for l in h.nonterminals()), tuple(lsig(l) for l in h.terminals()))


def obs(kind, ctx, o):
    if kind == 'Graph':
        return graph_obs(ctx, o)
    if kind == 'FactorGraph':
        return (graph_obs(ctx, o), interp_obs(o))
    if kind == 'HRG':
        return hrg_obs(ctx, o)
    return (hrg_obs(ctx, o), interp_obs(o))


def key_of(kind, ctx, o):
    """Canonical key for deduplication: collections whose order the property cannot observe are sorted;
    the order of the rules of one left-hand side is kept (it is observable through rules() and ==)."""
    if kind in ('Graph', 'FactorGraph'):
        go = (tuple(sorted(nsig(ctx, n) for n in o.nodes())), tuple(sorted(esig(ctx, e) for e in o.edges())),
              tuple(nsig(ctx, v) for v in o.ext), tuple(sorted(l.name for l in o.node_labels())),
              tuple(sorted(lsig(l) for l in o.edge_labels())))
        return (go, tuple(sorted(interp_obs(o)[0])), tuple(sorted(interp_obs(o)[1]))) if kind == 'FactorGraph' else go
    def rs(r):
        g = graph_struct(ctx, r.rhs)
        return (tuple(sorted(g[0])), tuple(sorted(g[1])), g[2])
    lhss = sorted({lsig(nt) for nt in o.nonterminals()} | {lsig(r.lhs) for r in o.all_rules()})
    by = {}
    for r in o.all_rules():
        by.setdefault(lsig(r.lhs), []).append(rs(r))
    ho = (lsig(o.start) if o.start is not None else None, tuple((l, tuple(by.get(l, ()))) for l in lhss),
          tuple(sorted(l.name for l in o.node_labels())), tuple(sorted(lsig(l) for l in o.edge_labels())))
    return (ho, tuple(sorted(interp_obs(o)[0])), tuple(sorted(interp_obs(o)[1]))) if kind == 'FGG' else ho


# ---------------------------------------------------------------------------------------------
# invariants of the property (on the real object, through public accessors)

def graph_invariants(g):
    out = []
    nodes = list(g.nodes())
    if len({n.id for n in nodes}) != len(nodes):
        out.append('duplicate-node-id')
    edges = list(g.edges())
    if len({e.id for e in edges}) != len(edges):
        out.append('duplicate-edge-id')
    for e in edges:
        for v in e.nodes:
            if not any(v == n for n in nodes):
                out.append('dangling-attachment')
        if tuple(v.label for v in e.nodes) != tuple(e.label.type):
            out.append('edge-type-mismatch')
    for v in g.ext:
        if not any(v == n for n in nodes):
            out.append('dangling-external')
    names = {}
    for l in list(g.edge_labels()) + [e.label for e in edges]:
        if names.setdefault(l.name, l) != l:
            out.append('label-name-two-labels')
    # a label in use can be looked up by its name
    for e in edges:
        if not g.has_edge_label_name(e.label.name) or g.get_edge_label(e.label.name) != e.label:
            out.append('edge-label-unknown-to-table')
    for n in nodes:
        if not g.has_node_label_name(n.label.name):
            out.append('node-label-unknown-to-table')
    return sorted(set(out))


def hrg_invariants(h):
    out = []
    names = {}

    def reg(l):
        if names.setdefault(l.name, l) != l:
            out.append('label-name-two-labels')
    for l in h.edge_labels():
        reg(l)
    if h.start is not None:
        reg(h.start)
        if not h.has_edge_label_name(h.start.name) or h.get_edge_label(h.start.name) != h.start:
            out.append('edge-label-unknown-to-table')
        if h.start.is_terminal:
            out.append('terminal-start')
    for r in h.all_rules():
        reg(r.lhs)
        if r.lhs.is_terminal:
            out.append('terminal-lhs')
        if tuple(r.lhs.type) != tuple(r.rhs.type):
            out.append('lhs-type-mismatch')
        for e in r.rhs.edges():
            reg(e.label)
        for l in [r.lhs] + [e.label for e in r.rhs.edges()]:
            if not h.has_edge_label_name(l.name) or h.get_edge_label(l.name) != l:
                out.append('edge-label-unknown-to-table')
        out.extend(graph_invariants(r.rhs))
    return sorted(set(out))


def interp_invariants(o):
    out = []
    for k, f in o.factors.items():
        if not o.has_edge_label_name(k):
            out.append('factor-for-unknown-label')
            continue
        el = o.get_edge_label(k)
        if el.is_nonterminal:
            out.append('factor-on-nonterminal')
        if len(f.domains) != el.arity:
            out.append('factor-arity')
        for nl, d in zip(el.type, f.domains):
            if nl.name not in o.domains or o.domains[nl.name] != d:
                out.append('factor-domain-mismatch')
        if tuple(f.weights.shape) != tuple(d.size() for d in f.domains):
            out.append('factor-shape')
    return sorted(set(out))


def invariants(kind, o):
    if kind == 'Graph':
        return graph_invariants(o)
    if kind == 'FactorGraph':
        return sorted(set(graph_invariants(o) + interp_invariants(o)))
    if kind == 'HRG':
        return hrg_invariants(o)
    return sorted(set(hrg_invariants(o) + interp_invariants(o)))


# ---------------------------------------------------------------------------------------------
# reference models

class GModel:
    def __init__(self):
        self.nodes = {}       # idkey -> label name
        self.edges = {}       # idkey -> (label sig, node sigs)
        self.ext = ()
        self.table = {}       # edge label name -> sig (names the real table may remember)
        self.explicit = set()
        self.domains = {}     # node label name -> domain key
        self.factors = {}     # edge label name -> (domain keys, shape)

    def struct(self):
        return (frozenset(self.nodes.items()), frozenset((k,) + v for k, v in self.edges.items()), self.ext)

    def label_verdict(self, sig):
        name = sig[0]
        if name in self.table and self.table[name] != sig:
            in_use = name in self.explicit or any(v[0][0] == name for v in self.edges.values())
            return 'raise' if in_use else 'either'
        return 'ok'

    def add_node(self, ns):
        if ns[0] in self.nodes:
            return 'raise'
        self.nodes[ns[0]] = ns[1]
        return 'ok'

    def remove_node(self, ns):
        if self.nodes.get(ns[0]) != ns[1]:
            return 'raise'
        if any(ns in v[1] for v in self.edges.values()) or ns in self.ext:
            return 'raise'
        del self.nodes[ns[0]]
        return 'ok'

    def add_edge(self, es):
        eid, ls, nss = es
        if eid in self.edges:
            return 'raise'
        for n in nss:
            if n[0] in self.nodes and self.nodes[n[0]] != n[1]:
                return 'raise'
        v = self.label_verdict(ls)
        if v == 'raise':
            return 'raise'
        if v == 'either':
            return ('either', es)
        self._do_add_edge(es)
        return 'ok'

    def _do_add_edge(self, es):
        eid, ls, nss = es
        for n in nss:
            self.nodes.setdefault(n[0], n[1])
        self.edges[eid] = (ls, nss)
        self.table[ls[0]] = ls

    def remove_edge(self, es):
        eid, ls, nss = es
        if self.edges.get(eid) != (ls, nss):
            return 'raise'
        del self.edges[eid]
        return 'ok'

    def set_ext(self, nss):
        for n in nss:
            if n[0] in self.nodes and self.nodes[n[0]] != n[1]:
                return 'raise'
        for n in nss:
            self.nodes.setdefault(n[0], n[1])
        self.ext = tuple(nss)
        return 'ok'

    def add_edge_label(self, ls):
        v = self.label_verdict(ls)
        if v == 'raise':
            return 'raise'
        if v == 'either':
            return ('either-label', ls)
        self.table[ls[0]] = ls
        self.explicit.add(ls[0])
        return 'ok'

    # interpretation part (shared with HModel through functions below)


class HModel:
    def __init__(self, start):
        self.table = {}
        self.rules = collections.OrderedDict()     # lhs sig -> list of rule struct
        self.start = None
        self.domains = {}
        self.factors = {}
        if start is not None:
            self.table[start[0]] = start
            self.start = start

    def struct(self):
        return (self.start, tuple(sorted((k, tuple(v)) for k, v in self.rules.items())))

    def clash(self, ls):
        return ls[0] in self.table and self.table[ls[0]] != ls

    def add_rule(self, lhs, rhs_struct, rhs_labels):
        labs = [lhs] + list(rhs_labels)
        seen = dict(self.table)
        for l in labs:
            if seen.setdefault(l[0], l) != l:
                return 'raise'
        for l in labs:
            self.table[l[0]] = l
        self.rules.setdefault(lhs, []).append(rhs_struct)
        return 'ok'

    def set_start_name(self, name):
        if name in self.table:
            l = self.table[name]
            if l[1]:
                return 'raise'
        else:
            l = (name, False, ())
            self.table[name] = l
        self.start = l
        return 'ok'

    def set_start_label(self, ls):
        if ls[1] or self.clash(ls):
            return 'raise'
        self.table[ls[0]] = ls
        self.start = ls
        return 'ok'

    def add_edge_label(self, ls):
        if self.clash(ls):
            return 'raise'
        self.table[ls[0]] = ls
        return 'ok'


def m_add_domain(m, nl, dkey):
    if nl in m.domains:
        return 'raise'
    m.domains[nl] = dkey
    return 'ok'


def m_add_factor(m, ls, dkeys, shape, table_verdict):
    """ls = label sig; dkeys = domain keys of the factor; shape = weight shape (already consistent with dkeys)."""
    if not ls[1]:
        return 'raise'
    if table_verdict != 'ok':
        return table_verdict
    if ls[0] in m.factors:
        return 'raise'
    if len(dkeys) != len(ls[2]):
        return 'raise'
    for nl, dk in zip(ls[2], dkeys):
        if nl not in m.domains or m.domains[nl] != dk:
            return 'raise'
    m.factors[ls[0]] = (tuple(dkeys), tuple(shape))
    return 'ok'


DOMS = {'d2': ('finite', (0, 1)), 'd3': ('finite', (0, 1, 2)), 'dx': ('finite', ('x',))}


def mkdom(k):
    from fggs.domains import FiniteDomain
    return FiniteDomain(list(DOMS[k][1]))


def dsize(k):
    return len(DOMS[k][1])


# ---------------------------------------------------------------------------------------------
# alphabets: each op = (name, lib(ctx, obj), model(ctx, model))

_OPS = {}


def graph_ops(factor_graph=False):
    u = universe()
    from fggs import Node, Edge, EdgeLabel, NodeLabel
    import torch
    from fggs.factors import FiniteFactor
    ops = []

    def N(ctx, n):
        return nsig(ctx, n)

    for nm in ('N1', 'N1b', 'N2', 'N3'):
        n = getattr(u, nm)
        ops.append(('add_node(%s)' % nm, lambda c, g, n=n: g.add_node(n), lambda c, m, n=n: m.add_node(N(c, n))))
        ops.append(('remove_node(%s)' % nm, lambda c, g, n=n: g.remove_node(n), lambda c, m, n=n: m.remove_node(N(c, n))))
    for nm in ('E1', 'E1b', 'E2', 'E3', 'E4', 'E5', 'E6', 'E7'):
        e = getattr(u, nm)
        ops.append(('add_edge(%s)' % nm, lambda c, g, e=e: g.add_edge(e), lambda c, m, e=e: m.add_edge(esig(c, e))))
        ops.append(('remove_edge(%s)' % nm, lambda c, g, e=e: g.remove_edge(e), lambda c, m, e=e: m.remove_edge(esig(c, e))))
    for nm, ext in (('()', ()), ('(N1)', (u.N1,)), ('(N1,N2)', (u.N1, u.N2)), ('(N1b)', (u.N1b,)), ('(N2,N2)', (u.N2, u.N2)), ('(N3,N1b)', (u.N3, u.N1b))):
        ops.append(('ext=%s' % nm, lambda c, g, ext=ext: setattr(g, 'ext', ext), lambda c, m, ext=ext: m.set_ext(tuple(N(c, v) for v in ext))))
    # convenience constructors
    ops.append(("new_node('A','n2')", lambda c, g: g.new_node('A', 'n2'), lambda c, m: m.add_node(('n2', 'A'))))

    def lib_new_node_implicit(c, g):
        n = g.new_node('A')
        c.idkey(n.id)

    def mod_new_node_implicit(c, m):
        k = '#f%d' % c.mfresh
        c.mfresh += 1
        return m.add_node((k, 'A'))
    ops.append(("new_node('A')", lib_new_node_implicit, mod_new_node_implicit))
    ops.append(("new_edge('e',[N2],id='e9')", lambda c, g: g.new_edge('e', [u.N2], is_terminal=True, id='e9'),
                lambda c, m: m.add_edge(('e9', lsig(u.eB), (N(c, u.N2),)))))
    ops.append(("new_edge('e',[N1],id='e3')", lambda c, g: g.new_edge('e', [u.N1], is_terminal=True, id='e3'),
                lambda c, m: m.add_edge(('e3', lsig(u.eA), (N(c, u.N1),)))))
    ops.append(("new_edge('X',[N1b],nt,id='e8')", lambda c, g: g.new_edge('X', [u.N1b], is_nonterminal=True, id='e8'),
                lambda c, m: m.add_edge(('e8', lsig(u.XB), (N(c, u.N1b),)))))
    # ill-typed / ill-formed constructions must be rejected before anything changes
    ops.append(("add_edge(Edge(eA,[N2]))", lambda c, g: g.add_edge(Edge(u.eA, [u.N2], 'bad1')), lambda c, m: 'raise'))
    ops.append(("add_edge(Edge(f,[N1]))", lambda c, g: g.add_edge(Edge(u.f, [u.N1], 'bad2')), lambda c, m: 'raise'))
    ops.append(("new_edge('e',[N1],terminal+nonterminal)", lambda c, g: g.new_edge('e', [u.N1], is_terminal=True, is_nonterminal=True), lambda c, m: 'raise'))
    ops.append(("add_node(Node(A,id=7))", lambda c, g: g.add_node(Node(u.A, 7)), lambda c, m: 'raise'))
    ops.append(('add_edge_label(eA)', lambda c, g: g.add_edge_label(u.eA), lambda c, m: m.add_edge_label(lsig(u.eA))))
    ops.append(('add_edge_label(eB)', lambda c, g: g.add_edge_label(u.eB), lambda c, m: m.add_edge_label(lsig(u.eB))))
    ops.append(('add_node_label(B)', lambda c, g: g.add_node_label(u.B), lambda c, m: 'ok'))
    if factor_graph:
        ops.extend(interp_ops(lambda m, ls: m.label_verdict(ls)))
    return ops


def interp_ops(table_verdict):
    """Domain / factor calls shared by FactorGraph and FGG."""
    u = universe()
    import torch
    from fggs.factors import FiniteFactor
    ops = []
    for nl, dk in (('A', 'd2'), ('A', 'd3'), ('B', 'dx')):
        lab = getattr(u, nl)
        ops.append(("add_domain(%s,%s)" % (nl, dk), lambda c, o, lab=lab, dk=dk: o.add_domain(lab, mkdom(dk)),
                    lambda c, m, nl=nl, dk=dk: m_add_domain(m, nl, dk)))
    ops.append(("new_finite_domain('B',[0,1])", lambda c, o: o.new_finite_domain('B', [0, 1]), lambda c, m: m_add_domain(m, 'B', 'd2')))

    def reg(m, ls, v):
        if v == 'ok':
            m.table[ls[0]] = ls
            if hasattr(m, 'explicit'):
                m.explicit.add(ls[0])
        return v
    for lname, dks in (('eA', ('d2',)), ('eA', ('d3',)), ('eB', ('dx',)), ('uAB', ('d2', 'dx')), ('uAB', ('d2',)), ('X', ('d2',)), ('g2', ('d2', 'd3'))):
        lab = getattr(u, lname)

        def lib(c, o, lab=lab, dks=dks):
            doms = [mkdom(k) for k in dks]
            o.add_factor(lab, FiniteFactor(doms, torch.ones([d.size() for d in doms])))

        def mod(c, m, lab=lab, dks=dks):
            ls = lsig(lab)
            v = m_add_factor(m, ls, dks, [dsize(k) for k in dks], table_verdict(m, ls) if ls[1] else 'ok')
            return reg(m, ls, v)
        ops.append(('add_factor(%s,%s)' % (lname, ','.join(dks)), lib, mod))
    for name, good in (('e', True), ('e', False), ('u', True), ('X', True), ('zz', True)):
        def lib(c, o, name=name, good=good):
            el = o.get_edge_label(name) if o.has_edge_label_name(name) else None
            shape = [o.domains[nl.name].size() if nl.name in o.domains else 2 for nl in (el.type if el else ())]
            if not good:
                shape = [s + 1 for s in shape] if shape else [2]
            o.new_finite_factor(name, torch.ones(shape))

        def mod(c, m, name=name, good=good):
            if name not in m.table:
                return 'raise'
            ls = m.table[name]
            if any(nl not in m.domains for nl in ls[2]) or not good:
                return 'raise'
            dks = [m.domains[nl] for nl in ls[2]]
            return m_add_factor(m, ls, dks, [dsize(k) for k in dks], 'ok')
        ops.append(("new_finite_factor(%r,%s)" % (name, 'right-shape' if good else 'wrong-shape'), lib, mod))
    return ops


def rule_parts(ctx, rule):
    return (lsig(rule.lhs), graph_struct(ctx, rule.rhs), [lsig(e.label) for e in rule.rhs.edges()])


def hrg_ops(fgg=False):
    u = universe()
    import fggs
    ops = []
    for nm in ('R1', 'R2', 'R3', 'R4', 'R5'):
        rl = getattr(u, nm)
        ops.append(('add_rule(%s)' % nm, lambda c, h, rl=rl: h.add_rule(rl), lambda c, m, rl=rl: m.add_rule(*rule_parts(c, rl))))

    def mod_new_rule(c, m, lhs, mk):
        g = mk()
        ls = (lhs, False, tuple(v.label.name for v in g.ext))
        return m.add_rule(ls, graph_struct(c, g), [lsig(e.label) for e in g.edges()])
    ops.append(("new_rule('X',g_ok)", lambda c, h: h.new_rule('X', u.g_ok()), lambda c, m: mod_new_rule(c, m, 'X', u.g_ok)))
    ops.append(("new_rule('X',g_bad)", lambda c, h: h.new_rule('X', u.g_bad()), lambda c, m: mod_new_rule(c, m, 'X', u.g_bad)))
    ops.append(("new_rule('e',g_ok)", lambda c, h: h.new_rule('e', u.g_ok()), lambda c, m: mod_new_rule(c, m, 'e', u.g_ok)))
    ops.append(("HRGRule(eA,g_ok) (terminal lhs)", lambda c, h: h.add_rule(fggs.HRGRule(u.eA, u.g_ok())), lambda c, m: 'raise'))
    ops.append(("HRGRule(S,g_ok) (type mismatch)", lambda c, h: h.add_rule(fggs.HRGRule(u.S, u.g_ok())), lambda c, m: 'raise'))
    # same arity, different node labels: lhs X:(B) over externals (A); lhs of type (B,A) over externals (A,B)
    ops.append(("HRGRule(XB,g_ok) (type mismatch, equal arity)", lambda c, h: h.add_rule(fggs.HRGRule(u.XB, u.g_ok())), lambda c, m: 'raise'))
    ops.append(("HRGRule(Z:(B,A), ext (A,B)) (type mismatch, permuted)",
                lambda c, h: h.add_rule(fggs.HRGRule(fggs.EdgeLabel('Z', [u.N2.label, u.N1.label], is_nonterminal=True), u.G([u.N1, u.N2], [fggs.Edge(u.uAB, [u.N1, u.N2], 'r9')], [u.N1, u.N2]))),
                lambda c, m: 'raise'))
    for nm in ('X', 'Y', 'e', 'S'):
        ops.append(("start=%r" % nm, lambda c, h, nm=nm: setattr(h, 'start', nm), lambda c, m, nm=nm: m.set_start_name(nm)))
    for nm in ('XB', 'X', 'eA'):
        lab = getattr(u, nm)
        ops.append(("start=%s" % nm, lambda c, h, lab=lab: setattr(h, 'start', lab), lambda c, m, lab=lab: m.set_start_label(lsig(lab))))
    for nm in ('eB', 'eA', 'X', 'XB'):
        lab = getattr(u, nm)
        ops.append(('add_edge_label(%s)' % nm, lambda c, h, lab=lab: h.add_edge_label(lab), lambda c, m, lab=lab: m.add_edge_label(lsig(lab))))
    ops.append(('add_node_label(B)', lambda c, h: h.add_node_label(u.B), lambda c, m: 'ok'))
    if fgg:
        ops.extend(interp_ops(lambda m, ls: 'raise' if m.clash(ls) else 'ok'))
    return ops


def ops_of(kind):
    if kind not in _OPS:
        _OPS[kind] = {'Graph': lambda: graph_ops(False), 'FactorGraph': lambda: graph_ops(True),
                      'HRG': lambda: hrg_ops(False), 'FGG': lambda: hrg_ops(True)}[kind]()
    return _OPS[kind]


def fresh(kind):
    import fggs
    if kind == 'Graph':
        return fggs.Graph(), GModel()
    if kind == 'FactorGraph':
        return fggs.FactorGraph(), GModel()
    if kind == 'HRG':
        return fggs.HRG('S'), HModel(('S', False, ()))
    return fggs.FGG('S'), HModel(('S', False, ()))


def model_struct(kind, m):
    if kind in ('Graph', 'FactorGraph'):
        s = m.struct()
    else:
        s = m.struct()
    if kind in ('FactorGraph', 'FGG'):
        return (s, tuple(sorted(m.domains.items())), tuple(sorted((k, v[1]) for k, v in m.factors.items())))
    return s


def lib_struct(kind, ctx, o):
    if kind in ('Graph', 'FactorGraph'):
        s = graph_struct(ctx, o)
        s = (s[0], s[1], s[2])
    else:
        rules = collections.OrderedDict()
        for r in o.all_rules():
            rules.setdefault(lsig(r.lhs), []).append(graph_struct(ctx, r.rhs))
        s = (lsig(o.start) if o.start is not None else None, tuple(sorted((k, tuple(v)) for k, v in rules.items())))
    if kind in ('FactorGraph', 'FGG'):
        doms = tuple(sorted((k, next(dk for dk in DOMS if mkdom(dk) == d)) for k, d in o.domains.items()))
        facs = tuple(sorted((k, tuple(f.weights.shape)) for k, f in o.factors.items()))
        return (s, doms, facs)
    return s


# ---------------------------------------------------------------------------------------------
# replay of a history

class Diverged(Exception):
    pass


def apply_lib(op, ctx, o):
    try:
        op[1](ctx, o)
        return None
    except RecursionError:
        raise
    except Exception as e:
        return e


def build(kind, hist):
    """Replay a history on a fresh object and a fresh model.  Only histories whose every step was judged
    fine are ever extended, so model and object agree along the way ('either' steps follow the object)."""
    ops = ops_of(kind)
    o, m = fresh(kind)
    ctx = Ctx()
    ctx.mfresh = 0
    for oi in hist:
        step(kind, ops[oi], ctx, o, m)
    return o, m, ctx


def step(kind, op, ctx, o, m):
    """Apply one op to object and model.  Returns (exception or None, verdict)."""
    mfresh0 = ctx.mfresh
    verdict = op[2](ctx, m)
    exc = apply_lib(op, ctx, o)
    if isinstance(verdict, tuple):
        if exc is None:
            if verdict[0] == 'either':
                m._do_add_edge(verdict[1])
            else:
                m.table[verdict[1][0]] = verdict[1]
                m.explicit.add(verdict[1][0])
        verdict = 'either'
    return exc, verdict


# ---------------------------------------------------------------------------------------------
# one case = expand one state

def gen_cases(tier, seed):      # not used (explore drives the search) but kept for the replay path
    return iter(())


def describe(case):
    if case[0] in ('expand', 'transition'):
        kind, hist = case[1], case[2]
        ops = ops_of(kind)
        d = {'object': kind, 'history': [ops[i][0] for i in hist]}
        if case[0] == 'transition':
            d['then'] = ops[case[3]][0]
        return d
    return case


def run_case(case):
    r = Res()
    if case[0] == 'expand':
        expand(case[1], tuple(case[2]), r, range(len(ops_of(case[1]))))
    elif case[0] == 'transition':
        expand(case[1], tuple(case[2]), r, [case[3]])
    elif case[0] == 'eqpairs':
        eq_pairs(case[1], case[2], case[3], case[4], r)
    return r


def expand(kind, hist, r, op_indices):
    ops = ops_of(kind)
    u = universe()
    for oi in op_indices:
        op = ops[oi]
        tcase = ('transition', kind, hist, oi)
        o, m, ctx = build(kind, hist)
        pre = obs(kind, ctx, o)
        exc, verdict = step(kind, op, ctx, o, m)
        r.trans += 1
        post = obs(kind, ctx, o)
        opn = op[0].split('(')[0] if not (op[0].startswith('start=') or op[0].startswith('ext=')) else op[0].split('=')[0] + '='
        site = kind + '.' + opn
        bad = False
        if exc is not None:
            if exc_kind(exc) not in OKEXC:
                r.bad('unexpected-exception:' + exc_kind(exc), site, 'failing-call', '%s after %s: %r' % (op[0], [ops[i][0] for i in hist], exc), tcase)
                bad = True
            if post != pre:
                r.bad('not-atomic', site, 'failing-call', '%s raised %s but changed the object; history %s; before=%r after=%r' % (op[0], exc_kind(exc), [ops[i][0] for i in hist], pre, post), tcase)
                bad = True
            if verdict == 'ok':
                r.bad('rejected-valid-call', site, 'model', '%s raised %s (%s) where the model accepts; history %s' % (op[0], exc_kind(exc), exc, [ops[i][0] for i in hist]), tcase)
                bad = True
        else:
            if verdict == 'raise':
                r.bad('accepted-invalid-call', site, 'model', '%s succeeded where the model rejects; history %s' % (op[0], [ops[i][0] for i in hist]), tcase)
                bad = True
        iv = invariants(kind, o)
        for name in iv:
            r.bad('invariant:' + name, site, 'after-call', '%s after %s breaks %s' % (op[0], [ops[i][0] for i in hist], name), tcase)
            bad = True
        if not bad:
            ls, ms = lib_struct(kind, ctx, o), model_struct(kind, m)
            if ls != ms:
                r.bad('wrong-effect', site, 'model', '%s after %s: object %r, model %r' % (op[0], [ops[i][0] for i in hist], ls, ms), tcase)
                bad = True
        # copy: equal, same snapshot (incl. label tables, domains, weights), independent
        if not bad:
            bad = copy_checks(kind, hist + (oi,), o, ctx, post, r, tcase, site)
        key = key_of(kind, ctx, o)
        nontriv = key_nontrivial(kind, o)
        if not bad:
            r.ok(key if nontriv else None, outcome=(kind, 'raised' if exc is not None else 'ok'), nontrivial=nontriv)
            r.payload.append((kind, hist + (oi,), h8(key)))


def key_nontrivial(kind, o):
    if kind in ('Graph', 'FactorGraph'):
        return len(o.nodes()) + len(o.edges()) > 0
    return len(o.all_rules()) > 0


def copy_checks(kind, hist, o, ctx, post, r, tcase, site):
    ops = ops_of(kind)
    try:
        c = o.copy()
    except Exception as e:
        r.exc(e, 'copy', tcase)
        return True
    cobs = obs(kind, ctx, c)
    bad = False
    if cobs != post:
        diff = [i for i, (a, b) in enumerate(zip(cobs, post)) if a != b] if isinstance(cobs, tuple) else []
        r.bad('copy-differs', kind + '.copy', 'copy', 'copy of the state after %s differs from the original in snapshot fields %r: copy=%r original=%r' % ([ops[i][0] for i in hist], diff, cobs, post), tcase)
        bad = True
    try:
        if not (c == o) or not (o == c) or (c != o):
            r.bad('copy-not-equal', kind + '.__eq__', 'copy', 'copy != original after %s' % ([ops[i][0] for i in hist],), tcase)
            bad = True
    except Exception as e:
        r.exc(e, 'copy', tcase)
        bad = True
    return bad


def independence(kind, hist, r):
    """For the state reached by hist: every call applied to its copy leaves the original unchanged and
    vice versa; same for an in-place edit of a factor's weights / a domain's values."""
    ops = ops_of(kind)
    for side in ('copy', 'original'):
        for oi in range(len(ops)):
            o, m, ctx = build(kind, hist)
            c = o.copy()
            a, b = (c, o) if side == 'copy' else (o, c)
            before = obs(kind, ctx, b)
            apply_lib(ops[oi], ctx, a)
            r.trans += 1
            after = obs(kind, ctx, b)
            if after != before:
                r.bad('copy-aliased', kind + '.copy', 'copy', 'after %s: calling %s on the %s changed the other object: %r -> %r' % ([ops[i][0] for i in hist], ops[oi][0], side, before, after), ('independence', kind, hist))
                return
        if kind in ('FactorGraph', 'FGG'):
            o, m, ctx = build(kind, hist)
            c = o.copy()
            a, b = (c, o) if side == 'copy' else (o, c)
            before = obs(kind, ctx, b)
            for f in a.factors.values():
                f.weights.physical.add_(1.)
            for d in a.domains.values():
                d.values.append('extra')
            r.trans += 1
            if obs(kind, ctx, b) != before:
                r.bad('copy-aliased', kind + '.copy', 'copy', 'after %s: in-place edit of the weights/domain values of the %s changed the other object' % ([ops[i][0] for i in hist], side), ('independence', kind, hist))
                return
    r.ok(None, nontrivial=False)


_run_case0 = run_case


def run_case(case):   # noqa: F811
    if case[0] == 'independence':
        r = Res()
        independence(case[1], tuple(case[2]), r)
        return r
    return _run_case0(case)


# ---------------------------------------------------------------------------------------------
# == on all pairs

def eq_oracle_struct(kind, ctx, o):
    return lib_struct(kind, ctx, o)[0] if kind in ('FactorGraph', 'FGG') else lib_struct(kind, ctx, o)


def eq_pairs(kind, hists, lo, hi, r):
    objs = []
    for h in hists:
        o, m, ctx = build(kind, tuple(h))
        objs.append((o, eq_oracle_struct(kind, ctx, o)))
    n = len(objs)
    eqm = {}
    for i in range(lo, hi):
        oi, si = objs[i]
        for j in range(n):
            oj, sj = objs[j]
            try:
                e = bool(oi == oj)
                ne = bool(oi != oj)
            except Exception as ex:
                r.exc(ex, 'eq', ('eqpair', kind, hists[i], hists[j]))
                continue
            r.trans += 1
            if e == ne:
                r.bad('eq-ne-inconsistent', kind + '.__eq__', 'eq', '== and != agree on %r vs %r' % (hists[i], hists[j]), ('eqpair', kind, hists[i], hists[j]))
            if i == j and not e:
                r.bad('eq-not-reflexive', kind + '.__eq__', 'eq', 'state %r != itself' % (hists[i],), ('eqpair', kind, hists[i], hists[j]))
            if e and si != sj:
                r.bad('eq-ignores-difference', kind + '.__eq__', 'eq', '== is True for states that differ in nodes/edges/ext/rules/start: %r vs %r' % (si, sj), ('eqpair', kind, hists[i], hists[j]))
            eqm[j] = e
        r.payload.append((kind, i, tuple(j for j in range(n) if eqm.get(j))))
        r.ok(None, nontrivial=False)


_run_case1 = run_case


def run_case(case):   # noqa: F811
    if case[0] == 'eqpair':
        r = Res()
        eq_pairs(case[1], [case[2], case[3]], 0, 2, r)
        return r
    return _run_case1(case)


# ---------------------------------------------------------------------------------------------
# the search

def explore(tier, seed, acc, jobs):
    import sys
    me = sys.modules[__name__]
    b = bounds(tier)
    per_kind = {}
    for kind in KINDS:
        depth = b['depth'][kind]
        o, m, ctx = build(kind, ())
        seen = {h8(key_of(kind, ctx, o)): ()}
        frontier = [()]
        acc.states += 1
        levels = []
        for d in range(depth):
            sub = Accum()
            run_pool(me, [('expand', kind, h) for h in frontier], sub, jobs=jobs, chunk=4)
            merge(acc, sub)
            nxt = []
            for (k, h, hk) in sorted(sub.payloads, key=lambda p: (len(p[1]), p[1])):
                if hk not in seen:
                    seen[hk] = h
                    nxt.append(h)
            levels.append((len(frontier), len(nxt)))
            # copy independence for every state expanded at this level
            sub = Accum()
            run_pool(me, [('independence', kind, h) for h in frontier], sub, jobs=jobs, chunk=2)
            merge(acc, sub)
            frontier = nxt
            acc.states += len(nxt)
        # all-pairs == over the visited states (shortest histories first)
        hists = sorted(seen.values(), key=lambda h: (len(h), h))
        cap = b['all_pairs_eq_states_cap']
        if len(hists) > cap:
            acc.caps.append('%s: == checked on all pairs of the first %d of %d states (all states of depth < %d)' % (kind, cap, len(hists), len(hists[cap])))
            hists = hists[:cap]
        sub = Accum()
        step_ = max(1, len(hists) // (jobs * 4))
        run_pool(me, [('eqpairs', kind, hists, lo, min(len(hists), lo + step_)) for lo in range(0, len(hists), step_)], sub, jobs=jobs, chunk=1)
        merge(acc, sub)
        # symmetry + partition from the rows
        rows = {i: set(js) for (k, i, js) in sub.payloads}
        r = Res()
        for i, js in rows.items():
            for j in js:
                if j in rows and i not in rows[j]:
                    r.bad('eq-not-symmetric', kind + '.__eq__', 'eq', '%r == %r but not conversely' % (hists[i], hists[j]), ('eqpair', kind, hists[i], hists[j]))
                if j in rows and rows[j] != js:
                    r.bad('eq-not-transitive', kind + '.__eq__', 'eq', 'equivalence classes of %r and %r differ although they are ==' % (hists[i], hists[j]), ('eqpair', kind, hists[i], hists[j]))
        acc.add(r)
        per_kind[kind] = {'depth': depth, 'states': len(seen), 'levels(frontier,new)': levels,
                          'eq_classes': len({frozenset(v) for v in rows.values()}), 'alphabet': len(ops_of(kind))}
    acc.extra['per_object'] = per_kind
    acc.samples = [('expand', 'Graph', (0, 8)), ('expand', 'FGG', (0, 1)), ('expand', 'HRG', (2,))]


def merge(acc, sub):
    acc.evaluations += sub.evaluations
    acc.cases += sub.cases
    acc.nt |= sub.nt
    acc.outcomes.update(sub.outcomes)
    acc.excl.update(sub.excl)
    acc.transitions += sub.transitions
    for v in sub.viol:
        sig = (v['kind'], v['site'], v['trigger'])
        if sum(1 for w in acc.viol if (w['kind'], w['site'], w['trigger']) == sig) < 3:
            acc.viol.append(v)
    acc.viol_counts.update(sub.viol_counts)
    acc.caps.extend(sub.caps)
