"""C19 — SCCs correct and dependency-ordered; nonterminal_graph; every nonterminal gets a value."""
import itertools
from mc.core import Res, exc_site, exc_kind
from mc import ir as IR, oracles

PID = 'C19'
LEVEL = 'exploration'
RULE = ('every labelled digraph with self-loops on n <= N vertices (all 2^(n*n) adjacency matrices), each '
        'presented with ascending and descending successor order, scc() compared with the transitive-closure '
        'partition and checked for dependency order; plus every grammar skeleton of a bounded family '
        '(nonterminals without rules, unreachable, recursive) for nonterminal_graph and the key set / shapes of '
        'sum_products. Non-trivial = graph with >= 1 edge (resp. grammar with >= 1 nonterminal edge); distinct '
        'by (n, adjacency bits, order) resp. grammar IR.')
ASSUMPTIONS = ['CPU only', 'vertex objects are small ints / EdgeLabels (hashable, comparable by ==)']
CHUNK = 8


def bounds(tier):
    return {'max_vertices': 4 if tier == 'quick' else 5, 'successor_orders': ['asc', 'desc'],
            'grammar_family': 'nts S,X,Y (arity 0/1); each rule <= 2 nonterminal edges; <= 2 rules per nonterminal'}


BLOCK = 1024


def grammar_irs(tier):
    """HRG skeletons over S (arity 0), X, Y (arity 1): each nonterminal has 0..2 rules, each rule's rhs
    carries a multiset of <= 2 nonterminal edges from {S,X,Y} and one terminal edge."""
    nts = {'S': (), 'X': ('T',), 'Y': ('T',)}
    edge_opts = [()] + [(a,) for a in 'SXY'] + list(itertools.combinations_with_replacement('SXY', 2))
    per_nt = []
    for nt in nts:
        opts = [()]
        opts += [(e,) for e in edge_opts]
        opts += list(itertools.combinations_with_replacement(edge_opts, 2)) if tier == 'thorough' else \
            [(e1, e2) for e1 in edge_opts[:4] for e2 in edge_opts[:4] if e1 <= e2]
        per_nt.append(opts)
    for combo in itertools.product(*per_nt):
        rules = []
        for nt, rs in zip(nts, combo):
            for es in rs:
                labs = ('T',)
                ext = () if nt == 'S' else (0,)
                edges = [('a', (0,))]
                for l in es:
                    edges.append((l, () if l == 'S' else (0,)))
                rules.append((nt, labs, ext, tuple(edges)))
        yield {'start': 'S', 'nl': {'T': 2}, 'term': {'a': ('T',)}, 'nt': dict(nts), 'rules': rules,
               'w': {'a': [IR.Fraction(1, 4), IR.Fraction(1, 8)]}}


def gen_cases(tier, seed):
    N = bounds(tier)['max_vertices']
    for n in range(0, N + 1):
        total = 1 << (n * n)
        for lo in range(0, total, BLOCK):
            yield ('digraphs', n, lo, min(total, lo + BLOCK))
    irs = list(grammar_irs(tier))
    for i in range(0, len(irs), 50):
        yield ('grammars', tier, i, min(len(irs), i + 50))
    for kind in ('chain', 'cycle', 'two-cycles'):
        yield ('deep', kind)


def describe(case):
    if case[0] == 'digraphs':
        return {'kind': 'all digraphs', 'n': case[1], 'adjacency_bits_from': case[2], 'to': case[3]}
    if case[0] == 'grammar':
        return {'kind': 'grammar', 'ir': case[1], 'stale_label_variant': case[2]}
    return {'kind': 'grammar skeletons', 'from': case[2], 'to': case[3]}


def check_scc(adj, r, case, trig='any'):
    from fggs.utils import scc
    try:
        comps = scc(adj)
    except Exception as e:
        r.exc(e, trig, case)
        return
    want, reach = oracles.scc_oracle(adj)
    got = [frozenset(c) for c in comps]
    key = tuple((repr(v), tuple(map(repr, adj[v]))) for v in adj)
    if len(got) != len(set(got)) or set(got) != want or sum(len(c) for c in got) != len(adj):
        r.bad('wrong-partition', 'utils.scc', trig, 'adj=%r got=%r want=%r' % (adj, got, sorted(sorted(map(repr, c)) for c in want)), case, key)
        return
    # order: no component has an edge into a later one
    pos = {}
    for i, c in enumerate(got):
        for v in c:
            pos[v] = i
    for v in adj:
        for u in adj[v]:
            if pos[v] < pos[u]:
                r.bad('wrong-order', 'utils.scc', trig, 'adj=%r comps=%r edge %r->%r goes to a later component' % (adj, got, v, u), case, key)
                return
    nedges = sum(len(adj[v]) for v in adj)
    r.ok(key, outcome=('ncomps', len(got)), nontrivial=nedges > 0)


def run_case(case):
    r = Res()
    if case[0] == 'digraphs':
        _, n, lo, hi = case
        for bits in range(lo, hi):
            for order in (0, 1):
                adj = {}
                for v in range(n):
                    succ = [u for u in range(n) if bits >> (v * n + u) & 1]
                    if order:
                        succ.reverse()
                    adj[v] = dict.fromkeys(succ)
                check_scc(adj, r, ('digraphs', n, bits, bits + 1))
        return r
    if case[0] == 'deep':
        deep_graph(case[1], r, case)
        return r
    if case[0] == 'grammar':
        if case[2] == 'edited':
            check_edited(case[1], r)
        else:
            check_grammar(case[1], r, case[2])
        return r
    _, tier, lo, hi = case
    irs = list(itertools.islice(grammar_irs(tier), lo, hi))
    for g in irs:
        check_grammar(g, r, stale=False)
        check_grammar(g, r, stale=True)
        check_grammar(g, r, stale='shared-rhs')
        check_edited(g, r)
    return r


def add_stale_labels(fgg):
    """Presentation variant: every right-hand side once carried (and lost again) an edge of each
    nonterminal it does not use, and knows the labels of all nonterminals -- its label table mentions
    labels that label no edge."""
    import fggs
    for rule in fgg.all_rules():
        used = {e.label for e in rule.rhs.edges()}
        for nt in fgg.nonterminals():
            if nt in used:
                continue
            nodes = [fggs.Node(l) for l in nt.type]
            e = fggs.Edge(nt, nodes)
            rule.rhs.add_edge(e)
            rule.rhs.remove_edge(e)
            for v in nodes:
                rule.rhs.remove_node(v)


def share_rhs_objects(fgg):
    """Presentation variant: rules (of different or equal left-hand sides) whose right-hand sides are equal graphs share
    ONE Graph object.  Returns None when no two rules of the grammar can share."""
    import fggs
    from mc import canon
    h = fggs.FGG(fgg.start)
    for l in fgg.node_labels():
        h.add_node_label(l)
    for l in fgg.edge_labels():
        h.add_edge_label(l)
    seen = {}
    shared = False
    for rule in fgg.all_rules():
        k = (tuple(rule.lhs.type), canon.canon_graph(rule.rhs))
        if k in seen:
            shared = True
        else:
            seen[k] = rule.rhs
        h.add_rule(fggs.HRGRule(rule.lhs, seen[k]))
    if not shared:
        return None
    h.domains = fgg.domains
    h.factors = fgg.factors
    return h


def deep_graph(kind, r, case):
    """Graphs whose depth-first search is deeper than the interpreter's recursion limit: scc may give up loudly
    (RecursionError), but whatever it returns must be the right partition in dependency order."""
    import sys
    from fggs.utils import scc
    lim = sys.getrecursionlimit()
    try:
        n = 3 * lim
        if kind == 'chain':
            adj = {i: ([i + 1] if i + 1 < n else []) for i in range(n)}
            want = [{i} for i in range(n)]
        elif kind == 'cycle':
            adj = {i: [(i + 1) % n] for i in range(n)}
            want = [set(range(n))]
        else:
            adj = {}
            for i in range(n):
                adj[2 * i] = [2 * i + 1]
                adj[2 * i + 1] = [2 * i] + ([2 * i + 2] if i + 1 < n else [])
            want = [{2 * i, 2 * i + 1} for i in range(n)]
        try:
            comps = scc(adj)
        except RecursionError:
            r.ok(('deep', kind), outcome='deep-recursion-error', nontrivial=False)
            return
        got = [set(c) for c in comps]
        pos = {}
        for ci, c in enumerate(got):
            for v in c:
                pos[v] = ci
        okp = sorted(map(sorted, got)) == sorted(map(sorted, want)) and len(pos) == len(adj)
        oko = okp and all(pos[u] <= pos[v] for v in adj for u in adj[v])
        if not okp:
            r.bad('wrong-partition', 'utils.scc', 'deep', '%s of %d vertices (recursion limit %d): %d components covering %d vertices, expected %d components' % (kind, len(adj), lim, len(got), len(pos), len(want)), case, ('deep', kind))
        elif not oko:
            r.bad('wrong-order', 'utils.scc', 'deep', '%s of %d vertices: a component has an edge into a later one' % (kind, len(adj)), case, ('deep', kind))
        else:
            r.ok(('deep', kind), outcome='deep-ok', nontrivial=True)
    finally:
        sys.setrecursionlimit(lim)


def check_grammar(g, r, stale=False):
    import fggs, torch
    from fggs.utils import nonterminal_graph, scc
    case = ('grammar', g, stale)
    key = ('g', tuple(g['rules']), stale)
    try:
        fgg = IR.build_fgg(g, 'bool')
        if stale == 'shared-rhs':
            fgg = share_rhs_objects(fgg)
            if fgg is None:
                return
        elif stale:
            add_stale_labels(fgg)
        ng = nonterminal_graph(fgg)
    except Exception as e:
        r.exc(e, 'any', case, key)
        return
    want = IR.nt_graph(g)
    got = {x.name: {y.name for y in ng[x]} for x in ng}
    if got != want or any((not x.is_nonterminal) for x in ng):
        r.bad('wrong-nonterminal-graph', 'utils.nonterminal_graph', 'any', 'ir=%r got=%r want=%r' % (g['rules'], got, want), case, key)
        return
    check_scc({x.name: dict.fromkeys(y.name for y in ng[x]) for x in ng}, r, case)
    check_scc(ng, r, case)
    # every nonterminal receives a value (Bool semiring: exact, always terminates)
    try:
        zs = fggs.sum_products(fgg, semiring=IR.semiring('bool'))
    except Exception as e:
        r.exc(e, 'any', case, key)
        return
    lfp = oracles.bool_lfp(g)
    for nt in g['nt']:
        el = fgg.get_edge_label(nt)
        if el not in zs:
            r.bad('missing-key', 'sum_product.sum_products', 'any', 'nonterminal %s has no value; rules=%r' % (nt, g['rules']), case, key)
            return
        exp = IR.expected_tensor(lfp[nt], oracles.ext_shape(g, nt), 'bool')
        if not IR.tensors_agree(zs[el].to_dense(), exp):
            r.bad('wrong-value', 'sum_product.sum_products', 'any', 'nonterminal %s bool value %r != lfp %r; rules=%r' % (nt, zs[el].to_dense().tolist(), exp.tolist(), g['rules']), case, key)
            return
    nontriv = any(want[x] for x in want)
    r.ok(key, outcome=('nt-edges', sum(len(v) for v in want.values())), nontrivial=nontriv)


def check_edited(g, r):
    """History variant: the dependency graph is queried, then an existing rule's right-hand side is edited in place
    (an edge of an already known nonterminal is added, later removed again) and the graph is queried again on the
    same grammar object: each answer must be the dependency relation of the grammar as it is at that moment."""
    import fggs
    from fggs.utils import nonterminal_graph
    case = ('grammar', g, 'edited')
    try:
        fgg = IR.build_fgg(g, 'bool')
        nonterminal_graph(fgg)
        fggs.sum_products(fgg, semiring=IR.semiring('bool'))
    except Exception as e:
        r.exc(e, 'edited', case, ('ge', tuple(g['rules'])))
        return
    want0 = IR.nt_graph(g)
    lfp = oracles.bool_lfp(g)
    for ri, rule in enumerate(list(fgg.all_rules())):
        for nt in list(fgg.nonterminals()):
            key = ('ge', tuple(g['rules']), ri, nt.name)
            try:
                nodes = [fggs.Node(l) for l in nt.type]
                e = fggs.Edge(nt, nodes)
                rule.rhs.add_edge(e)
                want = {k: set(v) for k, v in want0.items()}
                want[rule.lhs.name].add(nt.name)
                ng = nonterminal_graph(fgg)
                got = {x.name: {y.name for y in ng[x]} for x in ng}
                if got != want:
                    r.bad('stale-nonterminal-graph', 'utils.nonterminal_graph', 'edited', 'after adding an edge %s to rule %d of %r: got=%r want=%r' % (nt.name, ri, g['rules'], got, want), case, key)
                    rule.rhs.remove_edge(e)
                    for v in nodes:
                        rule.rhs.remove_node(v)
                    continue
                check_scc(ng, r, case, trig='edited')
                zs = fggs.sum_products(fgg, semiring=IR.semiring('bool'))
                missing = [x.name for x in fgg.nonterminals() if x not in zs]
                rule.rhs.remove_edge(e)
                for v in nodes:
                    rule.rhs.remove_node(v)
                ng = nonterminal_graph(fgg)
                got = {x.name: {y.name for y in ng[x]} for x in ng}
                if missing:
                    r.bad('missing-key', 'sum_product.sum_products', 'edited', 'after adding an edge %s to rule %d of %r: no value for %r' % (nt.name, ri, g['rules'], missing), case, key)
                elif got != want0:
                    r.bad('stale-nonterminal-graph', 'utils.nonterminal_graph', 'edited', 'after removing the edge %s again from rule %d of %r: got=%r want=%r' % (nt.name, ri, g['rules'], got, want0), case, key)
                else:
                    zs = fggs.sum_products(fgg, semiring=IR.semiring('bool'))
                    okv = all(IR.tensors_agree(zs[fgg.get_edge_label(x)].to_dense(), IR.expected_tensor(lfp[x], oracles.ext_shape(g, x), 'bool')) for x in g['nt'])
                    if not okv:
                        r.bad('wrong-value', 'sum_product.sum_products', 'edited', 'after add+remove of an edge %s in rule %d of %r the Bool values differ from the least fixed point' % (nt.name, ri, g['rules']), case, key)
                    else:
                        r.ok(key, outcome='edited', nontrivial=True)
            except Exception as e2:
                r.exc(e2, 'edited', case, key)
                return
