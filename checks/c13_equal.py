"""C13 — equal and allclose decide (approximate) equality of the denoted tensors."""
import itertools, math, warnings
from mc.core import Res
from mc import patterns as P, ptinv

PID = 'C13'
LEVEL = 'exploration'
RULE = ('every ordered pair of same-typed patterns of the catalogue (100 index-type tuples, 606 patterns) x default pairs '
        'over {0,1,-1,inf} x physical contents: ALL assignments of {0,1,1.5} to the physical elements when the two '
        'tensors together have <= 3 (thorough 4) of them, otherwise "b := re-patterned copy of a" with every single-element '
        'perturbation by {1e-9, 0.5}, plus a NaN / +inf / -inf element and a NaN default (compared with a re-patterned copy, a clone and the very same object); every tensor against its own views T / flatten / unsqueeze (shared physical axes, equal or different shape); equal and allclose under (rtol,atol) in {(1e-5,1e-8),(0,0.5),(0.4,0)} '
        'against torch.equal / torch.allclose on to_dense(), both argument orders; equal_default / allclose_default; '
        'a tensor equals its clone, its densification and its re-patterned copy; MultiTensor.allclose over every '
        'key-presence pattern of two MultiTensors with 3 keys, blocks in {absent, zero, 0.05, 1}, tol in {0, 0.1}, in the '
        'Real and Log semirings (absent = semiring zero). Non-trivial = pair whose dense tensors are equal or close '
        'although patterns/defaults differ, or differ in exactly one element.')
ASSUMPTIONS = ['torch.equal / torch.allclose on dense tensors are the specification']
CHUNK = 2
inf = math.inf
DEFS = (0., 1., -1., inf)
DPAIRS = ((0., 0.), (0., 1.), (1., 0.), (1., 1.), (-1., 1.), (inf, inf), (0., inf))
VALS = (0., 1., 1.5)
TOLS = ((1e-5, 1e-8), (0., 0.5), (0.4, 0.))


def bounds(tier):
    return {'exhaustive_contents_up_to_elements': 3 if tier == 'quick' else 4, 'default_pairs': 7, 'tolerances': TOLS}


def gen_cases(tier, seed):
    cat = P.catalogue(2, 2, 18)
    for i, tt in enumerate(cat):
        n = len(cat[tt])
        for lo in range(0, n, 3):
            yield ('P', i, lo, min(n, lo + 3), tier)
    yield ('M', 'real')
    yield ('M', 'log')
    yield ('X',)


def describe(case):
    if case[0] == 'M':
        return {'part': 'MultiTensor.allclose', 'semiring': case[1]}
    if case[0] == 'P':
        cat = P.catalogue(2, 2, 18)
        tt = list(cat)[case[1]]
        return {'index_types': tt, 'first_operand_patterns': [P.show(p) for p in cat[tt][case[2]:case[3]]]}
    return {'single': list(case)}


def mk(p, d, vals):
    import torch
    from fggs.indices import PatternedTensor
    paxes, vaxes = P.build_axes(p)
    phys = torch.tensor(vals, dtype=torch.float64).reshape(p[0])
    return PatternedTensor(phys, paxes, vaxes, d)


def run_case(case):
    warnings.simplefilter('ignore')
    ptinv.install()
    r = Res()
    if case[0] == 'X':
        part_unit_sum(r, case)
    elif case[0] == 'M':
        part_multi(case[1], r)
    elif case[0] == 'P':
        cat = P.catalogue(2, 2, 18)
        tt = list(cat)[case[1]]
        lim = bounds(case[4])['exhaustive_contents_up_to_elements']
        for pa in cat[tt][case[2]:case[3]]:
            for pb in cat[tt]:
                pair(pa, pb, lim, r)
    elif case[0] == 'P1':
        _, pa, pb, da, db, va, vb = case
        judge(pa, pb, da, db, list(va), list(vb), r)
    return r


def part_unit_sum(r, case):
    """Size-1 dimensions written in different ways - unitAxis, a physical axis of size 1, a sum axis around a unit
    (SumAxis(0, PhysicalAxis(1), 0), normalised by the constructor) - compared with each other and with dense tensors,
    as receiver and as argument."""
    import torch
    from fggs.indices import PatternedTensor, PhysicalAxis, SumAxis, unitAxis
    def variants(vals, default):
        n = len(vals)
        out = []
        k = PhysicalAxis(n)
        out.append(('dense', PatternedTensor(torch.tensor([vals], dtype=torch.float64), default=default)))
        out.append(('unit', PatternedTensor(torch.tensor(vals, dtype=torch.float64), (k,), (unitAxis, k), default)))
        k1, k2 = PhysicalAxis(1), PhysicalAxis(n)
        out.append(('sum-of-size-1', PatternedTensor(torch.tensor([vals], dtype=torch.float64), (k1, k2), (SumAxis(0, k1, 0), k2), default)))
        k1, k2 = PhysicalAxis(1), PhysicalAxis(n)
        out.append(('physical-size-1', PatternedTensor(torch.tensor([vals], dtype=torch.float64), (k1, k2), (k1, k2), default)))
        k3 = PhysicalAxis(n)
        out.append(('sum-unit', PatternedTensor(torch.tensor(vals, dtype=torch.float64), (k3,), (SumAxis(0, unitAxis, 0), k3), default)))
        return out
    for va, vb in (([1., 2.], [1., 2.]), ([1., 2.], [1., 2.5]), ([0., 0.], [0., 0.]), ([3.], [3.]), ([3.], [4.])):
        for da, db in ((0., 0.), (-1., 0.), (0., -1.), (-1., -1.)):
            for (na, a), (nb, b) in itertools.product(variants(va, da), variants(vb, db)):
                key = ('X', tuple(va), tuple(vb), da, db, na, nb)
                try:
                    with warnings.catch_warnings(record=True) as wl:
                        warnings.simplefilter('always')
                        A, B = a.to_dense(), b.to_dense()
                        ge, gc = a.equal(b), a.allclose(b, 1e-5, 1e-8)
                    we, wc = bool(torch.equal(A, B)), bool(torch.allclose(A, B, rtol=1e-5, atol=1e-8))
                    if any('type mismatch' in str(x.message) for x in wl):
                        # these pairs are well typed (a size-1 dimension is a unit however it is written): a warning is a finding
                        r.bad('type-mismatch-warning', 'indices.Axis.unify', 'unit-sum', '%s default %r  vs  %s default %r: the library reports an index type mismatch' % (na, da, nb, db), case, key)
                        continue
                    if bool(ge) != we or bool(gc) != wc:
                        r.bad('equal-wrong' if bool(ge) != we else 'allclose-wrong', 'indices.PatternedTensor.equal', 'unit-sum', '%s %r default %r  vs  %s %r default %r: equal=%r allclose=%r, torch %r %r' % (na, va, da, nb, vb, db, ge, gc, we, wc), case, key)
                    else:
                        r.ok(key, outcome=('unit-sum', we), nontrivial=True)
                except Exception as e:
                    r.exc(e, 'unit-sum', case, key)


def numel(p):
    n = 1
    for s in p[0]:
        n *= s
    return n


def pair(pa, pb, lim, r):
    import torch
    na, nb = numel(pa), numel(pb)
    for da, db in DPAIRS:
        if True:
            if na + nb <= lim:
                for va in itertools.product(VALS, repeat=na):
                    for vb in itertools.product(VALS, repeat=nb):
                        judge(pa, pb, da, db, list(va), list(vb), r)
            else:
                # b := a re-patterned (values of a's dense tensor at b's backed positions), then perturbations
                va = [float(1 + (i % 3) * 0.5) for i in range(na)]
                a = mk(pa, da, va)
                A = a.to_dense()
                vb0 = P_project(A, pb)
                judge(pa, pb, da, db, va, vb0, r)
                for i in range(nb):
                    for eps in (1e-9, 0.5):
                        vb = list(vb0)
                        vb[i] = vb[i] + eps
                        judge(pa, pb, da, db, va, vb, r)
                for i in range(min(na, 2)):
                    va2 = list(va)
                    va2[i] = va2[i] + 0.5
                    judge(pa, pb, da, db, va2, vb0, r)
            # NaN / infinite contents (NaN differs from everything, itself included - also when both sides are one object)
            if (da, db) in ((0., 0.), (1., 1.), (inf, inf)) and na:
                for special, da2 in ((math.nan, da), (inf, da), (-inf, da), (1., math.nan)):
                    va = [float(1 + (i % 3) * 0.5) for i in range(na)]
                    va[0] = special
                    A = mk(pa, da2, va).to_dense()
                    judge(pa, pb, da2, da2 if da2 != da2 else db, va, P_project(A, pb), r)


def P_project(A, pb):
    """values of dense tensor A at the positions pattern pb backs, in pb's physical order"""
    import torch
    psizes, vterms = pb
    out = []

    def pos(v, idx):
        if isinstance(v, int):
            return idx[v]
        if v == ('u',):
            return 0
        if v[0] == 'p':
            rr = 0
            for x in v[1]:
                rr = rr * P._n(x, psizes) + pos(x, idx)
            return rr
        return v[1] + pos(v[2], idx)
    for idx in itertools.product(*[range(s) for s in psizes]):
        out.append(float(A[tuple(pos(v, idx) for v in vterms)]))
    return out


def judge(pa, pb, da, db, va, vb, r):
    import torch
    case = ('P1', pa, pb, da, db, tuple(va), tuple(vb))
    key = case
    desc = '%s default %r values %r  vs  %s default %r values %r' % (P.show(pa), da, va, P.show(pb), db, vb)
    try:
        a, b = mk(pa, da, va), mk(pb, db, vb)
        A, B = a.to_dense(), b.to_dense()
        want = bool(torch.equal(A, B))
        got1, got2 = a.equal(b), b.equal(a)
        if bool(got1) != want or bool(got2) != want:
            r.bad('equal-wrong', 'indices.PatternedTensor.equal', 'equal', '%s: equal=%r / reversed %r, torch.equal=%r' % (desc, got1, got2, want), case, key)
            return
        for rtol, atol in TOLS:
            w1 = bool(torch.allclose(A, B, rtol=rtol, atol=atol))
            w2 = bool(torch.allclose(B, A, rtol=rtol, atol=atol))
            g1 = a.allclose(b, rtol=rtol, atol=atol)
            g2 = b.allclose(a, rtol, atol)          # positional, in the order of the statement: (other, rtol, atol)
            if bool(g1) != w1 or bool(g2) != w2:
                r.bad('allclose-wrong', 'indices.PatternedTensor.allclose', 'allclose', '%s rtol=%g atol=%g: allclose=%r / reversed %r, torch %r / %r' % (desc, rtol, atol, g1, g2, w1, w2), case, key)
                return
        # representation insensitivity
        selfeq = bool(torch.equal(A, A.clone()))          # False exactly when A holds a NaN
        if bool(a.equal(a.clone())) != selfeq or bool(a.equal(a)) != selfeq or bool(a.clone().equal(a)) != selfeq:
            r.bad('equal-wrong', 'indices.PatternedTensor.equal', 'equal-self', '%s: tensor vs itself / its clone: %r %r %r, torch.equal %r' % (desc, a.equal(a), a.equal(a.clone()), a.clone().equal(a), selfeq), case, key)
            return
        for rtol, atol in TOLS[:2]:
            wself = bool(torch.allclose(A, A.clone(), rtol=rtol, atol=atol))
            if bool(a.allclose(a, rtol=rtol, atol=atol)) != wself or bool(a.allclose(a.clone(), rtol=rtol, atol=atol)) != wself:
                r.bad('allclose-wrong', 'indices.PatternedTensor.allclose', 'allclose-self', '%s: allclose with itself %r / with its clone %r, torch.allclose %r' % (desc, a.allclose(a, rtol=rtol, atol=atol), a.allclose(a.clone(), rtol=rtol, atol=atol), wself), case, key)
                return
        # views of the same tensor: they share physical axes with a, in other positions or under another shape
        views = [('flatten', a.flatten(), A.flatten()), ('unsqueeze0', a.unsqueeze(0), A.unsqueeze(0)), ('unsqueeze-1', a.unsqueeze(-1), A.unsqueeze(-1))]
        if a.ndim == 2:
            views.append(('T', a.T, A.T))
        for vn, v, V in views:
            weq = bool(A.shape == V.shape and torch.equal(A, V))
            with warnings.catch_warnings(record=True) as wlist:
                warnings.simplefilter('always')
                g = (a.equal(v), v.equal(a))
            if any('type mismatch' in str(x.message) for x in wlist):
                # e.g. a matrix whose two axes have different index types against its transpose: not a well-typed pair
                r.excl['view comparison is ill-typed (unify warning)'] += 1
                continue
            if bool(g[0]) != weq or bool(g[1]) != weq:
                r.bad('equal-wrong', 'indices.PatternedTensor.equal', 'equal-view', '%s: a.equal(a.%s) = %r / reversed %r, torch.equal %r (shapes %r, %r)' % (desc, vn, g[0], g[1], weq, tuple(A.shape), tuple(V.shape)), case, key)
                return
            if A.shape == V.shape:
                for rtol, atol in TOLS[:2]:
                    wv = bool(torch.allclose(A, V, rtol=rtol, atol=atol))
                    gv = (a.allclose(v, rtol=rtol, atol=atol), v.allclose(a, rtol=rtol, atol=atol))
                    if bool(gv[0]) != wv or bool(gv[1]) != bool(torch.allclose(V, A, rtol=rtol, atol=atol)):
                        r.bad('allclose-wrong', 'indices.PatternedTensor.allclose', 'allclose-view', '%s: a.allclose(a.%s) = %r / reversed %r, torch.allclose %r' % (desc, vn, gv[0], gv[1], wv), case, key)
                        return
        from fggs.indices import PatternedTensor
        if bool(a.equal(PatternedTensor(A))) != selfeq or bool(PatternedTensor(A).equal(a)) != selfeq:
            r.bad('equal-wrong', 'indices.PatternedTensor.equal', 'equal-self', '%s: tensor != its densification' % desc, case, key)
            return
        ed = a.equal_default()
        if da == da and bool(ed) != bool((a.physical == da).all()):
            r.bad('equal-wrong', 'indices.PatternedTensor.equal_default', 'equal_default', '%s: equal_default=%r' % (desc, ed), case, key)
            return
        for rtol, atol in ((0., 0.5), (1e-5, 1e-8)) if da == da else ():
            ad = a.allclose_default(rtol=rtol, atol=atol)
            wd = bool(torch.allclose(a.physical, torch.full_like(a.physical, da), rtol=rtol, atol=atol))
            if bool(ad) != wd:
                r.bad('allclose-wrong', 'indices.PatternedTensor.allclose_default', 'allclose_default', '%s: allclose_default(rtol=%g, atol=%g)=%r, torch %r' % (desc, rtol, atol, ad, wd), case, key)
                return
    except ptinv.RepInvariantError as e:
        r.bad('representation-invariant', 'indices.PatternedTensor', 'equal', '%s: %s' % (desc, e), case, key)
        return
    except Exception as e:
        r.exc(e, 'equal', case, key)
        return
    diff = int((A != B).sum()) if A.shape == B.shape else -1
    r.ok(key, outcome=('equal' if want else 'differ-in-%s' % (diff if diff < 3 else 'many')), nontrivial=want or diff == 1)


def part_multi(sem, r):
    import torch
    from fggs.multi import MultiTensor
    from fggs.indices import PatternedTensor
    from mc import ir as IR
    S = IR.semiring(sem, 'float64')
    zero = float(S.from_int(0))
    shapes = {'x': torch.Size([2]), 'y': torch.Size([]), 'z': torch.Size([2, 2])}

    def enc(v):
        return v if sem == 'real' else (math.log(v) if v > 0 else -inf)
    opts = {'x': [None, [0., 0.], [0., .05], [1., 0.]], 'y': [None, 0., .05, 1.], 'z': [None, [[0., 0.], [0., 0.]], [[0., 0.], [.05, 0.]], 'diag']}

    def mkmt(sel):
        m = MultiTensor(shapes, S)
        for k, v in sel.items():
            if v is None:
                continue
            if v == 'diag':
                from fggs.indices import PhysicalAxis
                ax = PhysicalAxis(2)
                m[k] = PatternedTensor(torch.tensor([enc(1.), enc(1.)], dtype=torch.float64), (ax,), (ax, ax), zero)
            else:
                t = torch.tensor(v, dtype=torch.float64)
                t = t if sem == 'real' else t.log()
                m[k] = PatternedTensor(t, default=zero)
        return m

    def dense(sel):
        out = []
        for k in ('x', 'y', 'z'):
            v = sel[k]
            n = shapes[k].numel()
            if v is None:
                out += [zero] * n
            elif v == 'diag':
                out += [enc(1.), zero, zero, enc(1.)]
            else:
                t = torch.tensor(v, dtype=torch.float64).reshape(-1)
                out += [enc(float(x)) for x in t]
        return out
    keys = ('x', 'y', 'z')
    for sa in itertools.product(*[opts[k] for k in keys]):
        for sb in itertools.product(*[opts[k] for k in keys]):
            A, B = dict(zip(keys, sa)), dict(zip(keys, sb))
            da, db = dense(A), dense(B)
            for tol in (0, 0.1):
                case = ('M1', sem, repr(A), repr(B), tol)
                exp = all((x == y) or (abs(x - y) <= tol if not (math.isinf(x) or math.isinf(y)) else False) for x, y in zip(da, db))
                try:
                    got = mkmt(A).allclose(mkmt(B), tol)
                except Exception as e:
                    r.exc(e, 'multi-allclose', case, case)
                    continue
                if bool(got) != exp:
                    r.bad('multi-allclose-wrong', 'multi.MultiTensor.allclose', 'multi-allclose', '%s: %r vs %r tol=%g: allclose=%r, with absent = zero it is %r' % (sem, A, B, tol, got, exp), case, case)
                else:
                    r.ok(case, outcome=('multi', exp), nontrivial=any(v is None for v in sa + sb))
